"""C20 — concurrent use from several threads gives the serial results (PARTIAL: GIL / ctypes / C library are not modelled).

Theorems: lean/EmbitModel/Props/C20.lean — the locking protocol is serialisable for every number of threads, program
length and schedule, given per-function facts; those facts (native calls only under `_lock`, out-buffers fresh) are
PROBED from the loaded binding module on every run (harness/bindprobe.py via facts.regenerate("binding")) and checked
by `decide` over Generated/BindingFacts.lean.
Tie to the real code: (a) that probe; (b) real threads under the deterministic scheduler (harness/sched.py): every
thread's results under every tried schedule must equal the serial run (the property itself), the run's lock/native
events must follow the probed step lists, and for programs of direct binding calls the Lean model's prediction for
the same schedule (`lock.run`) must agree with what the real threads returned (correspondence).
Deepened (Props/C20X.lean, C20XFacts.lean): fairness, and the machine in which the library context has contents
(Model/LockCtx.lean). Tie: the same schedules are also sent to `lockctx.run`; which probed functions WRITE the context
(`lockctx.writers`, derived from the recorded native symbols) is compared with a behavioural probe here: the memory of
the context object is snapshotted before and after each probed call (`context_writers_observed`)."""
import ast
import contextlib
import json
import os
import signal
import time

from core import Check, VERIF, REPO, run_driver
import facts
import bindprobe
import sched

import embit.util.ctypes_secp256k1 as B
from embit import ec
from embit.ec import PrivateKey, PublicKey
from embit.hashes import tagged_hash
from embit.liquid import slip77
from embit.liquid.pset import PSET
import embit.liquid.transaction  # noqa  (immediate caller: unblind)

PROP = "C20"
MODS = ["EmbitModel.Props.C20", "EmbitModel.Props.C20Facts", "EmbitModel.Props.C20X", "EmbitModel.Props.C20XFacts",
        "EmbitModel.Props.C20Complete"]
NPOOL = 3

_POOL = {}
_TESTDATA = {}


class Timeout(Exception):
    pass


@contextlib.contextmanager
def deadline(seconds, what):
    """calls into embit from the main thread that could hang (a function taking the real lock twice)"""
    def on_alarm(signum, frame):
        raise Timeout("%s did not finish within %.0f s" % (what, seconds))
    old = signal.signal(signal.SIGALRM, on_alarm)
    signal.setitimer(signal.ITIMER_REAL, seconds)
    try:
        yield
    finally:
        signal.setitimer(signal.ITIMER_REAL, 0)
        signal.signal(signal.SIGALRM, old)


def P(i):
    if i not in _POOL:
        _POOL[i] = bindprobe.pool(B, i)
    return _POOL[i]


def testdata():
    """string constants of tests/tests/test_threading.py (the recorded PSETs), read as values"""
    if not _TESTDATA:
        src = open(os.path.join(REPO, "tests", "tests", "test_threading.py")).read()
        for n in ast.parse(src).body:
            if isinstance(n, ast.Assign) and isinstance(n.value, ast.Constant) and isinstance(n.value.value, str):
                _TESTDATA[n.targets[0].id] = n.value.value
        _TESTDATA["mbkey"] = "L2U2zGBgimb2vNee3bTw2y936PDJZXq3p7nMXEWuPP5MmpE1nCfv"
    return _TESTDATA


# ---------------------------------------------------------------- operations

def split_name(name):
    f, _, v = name.partition(":")
    return f, v


def bind_recipe(name):
    f, v = split_name(name)
    for (vv, mk) in bindprobe.RECIPES.get(f, []):
        if vv == v:
            return getattr(B, f), mk
    fn = getattr(B, f, None)
    if fn is not None:
        g = bindprobe.guess_recipe(fn)
        if g is not None:
            return fn, g
    raise KeyError(name)


def reversed_pset(b64):
    p = PSET.from_string(b64)
    p.inputs = p.inputs[::-1]
    p.outputs = p.outputs[::-1]
    return str(p)


def prepare(descr):
    """operation descriptor -> thunk (run inside the thread) on thread-private, freshly built inputs"""
    kind, name, i = descr
    if kind == "bind":
        fn, mk = bind_recipe(name)
        args, kw = bindprobe.clone(mk(P(i)))

        def thunk():
            r = fn(*args, **kw)
            return (r, args)        # in-place variants return through their arguments
        return thunk
    td = testdata()
    Q = P(i)
    if name == "ec_sign":
        sk = PrivateKey(bindprobe.clone(Q["secret"]))
        msg = bindprobe.clone(Q["msg"])

        def thunk():
            sig = sk.sign(msg)
            pub = sk.get_public_key()
            return (sig.serialize(), pub.verify(sig, msg), pub.sec())
        return thunk
    if name == "ec_schnorr":
        sk = PrivateKey(bindprobe.clone(Q["secret2"]))
        msg = bindprobe.clone(Q["msg"])

        def thunk():
            sig = sk.schnorr_sign(msg)
            pub = sk.get_public_key()
            return (sig.serialize(), pub.schnorr_verify(sig, msg), pub.xonly())
        return thunk
    if name == "ec_pub":
        sk = PrivateKey(bindprobe.clone(Q["secret"]))

        def thunk():
            pub = sk.get_public_key()
            sec = pub.sec()
            pub2 = PublicKey.parse(sec)
            pub2.compressed = False
            return (sec, pub2.sec(), pub.xonly(), (-pub).sec() if hasattr(pub, "__neg__") else None)
        return thunk
    if name == "ec_tweak":
        sk = PrivateKey(bindprobe.clone(Q["secret"]))
        tw = bindprobe.clone(Q["tweak"])

        def thunk():
            t = sk.taproot_tweak(tw)
            pt = sk.get_public_key().taproot_tweak(tw)
            return (t.secret, pt.sec(), t.get_public_key().xonly() == pt.xonly())
        return thunk
    if name == "ec_ecdh":
        sk = PrivateKey(bindprobe.clone(Q["secret"]))
        other = PrivateKey(bindprobe.clone(Q["secret2"])).get_public_key()

        def thunk():
            return (sk.ecdh(other), sk.ecdh(other, bindprobe._hashfn, b"x" * 32))
        return thunk
    mb = PrivateKey.from_string(td["mbkey"])
    if name in ("unblind_pset", "blind_pset"):
        b64 = td["B64PSET"] if i % 2 == 0 else reversed_pset(td["B64PSET"])
        pset = PSET.from_string(b64)
        seed = tagged_hash("liquid/blinding_seed", mb.secret)

        def thunk():
            pset.unblind(mb)
            r = [(inp.value, inp.asset, inp.value_blinding_factor, inp.asset_blinding_factor) for inp in pset.inputs]
            if name == "blind_pset":
                pset.blind(seed)
                r.append(str(pset))
            return r
        return thunk
    if name == "unblind_vout":
        pset = PSET.from_string(td["BLINDED"])
        outs = [o for o in pset.outputs if o.blinding_pubkey is not None]
        vout = outs[i % len(outs)].blinded_vout
        bkey = slip77.blinding_key(mb, vout.script_pubkey)

        def thunk():
            return vout.unblind(bkey.secret)
        return thunk
    if name == "unblind_input":
        pset = PSET.from_string(td["B64PSET"])
        inp = pset.inputs[i % len(pset.inputs)]

        def thunk():
            inp.unblind(mb)
            return (inp.value, inp.asset, inp.value_blinding_factor, inp.asset_blinding_factor)
        return thunk
    raise KeyError(descr)


def read_result(s, tid, i, r):
    """the thread reads (copies) the operation's result: untraced, so the read and its log entry are one step"""
    v = bindprobe.canon(r)
    if s is not None:
        s.emit(tid, "read", i)
    return v


def run_op(s, tid, i, thunk):
    try:
        r = thunk()
    except sched.Deadlock:
        r = "deadlock"
    except Exception as e:
        r = "raised %s" % type(e).__name__
    return read_result(s, tid, i, r)


class Box:
    sched = None


def thread_fn(box, tid, thunks):
    def f():
        return [run_op(box.sched, tid, i, th) for i, th in enumerate(thunks)]
    return f


def plain_serial(progs):
    """the threads one after the other, no instrumentation at all"""
    with deadline(120.0, "the plain serial run of %s" % (progs,)):
        return [[run_op(None, t, i, prepare(d)) for i, d in enumerate(ops)] for t, ops in enumerate(progs)]


_FILES = None


def trace_files():
    global _FILES
    if _FILES is None:
        _FILES = sched.caller_files(B)
    return _FILES


def controlled(progs, preempts, timeout=60.0):
    box = Box()
    fns = [thread_fn(box, t, [prepare(d) for d in ops]) for t, ops in enumerate(progs)]
    s = sched.Scheduler(fns, preempts, trace_files(), {run_op.__code__}, timeout)
    box.sched = s
    with sched.Controlled(B, s):
        s.run()
    res = []
    for t in range(len(progs)):
        if s.errors[t] is not None:
            res.append("thread died: %r" % (s.errors[t],))
        else:
            res.append(s.results[t])
    return s, res


# ---------------------------------------------------------------- the model's view of a run

_STEPS = {}


def steps_of(c, name):
    if name not in _STEPS:
        out = run_driver(["lock.steps " + name])[0]
        _STEPS[name] = None if not out.startswith("ok") else ([] if out == "ok -" else out[3:].split(","))
    return _STEPS[name]


def model_schedule(c, progs, events):
    """events of the real run -> one scheduler tick of the model per executed step; None if the run does not follow the
    probed step lists (then the reason)"""
    flat = []
    for t, ops in enumerate(progs):
        fl = []
        for i, (kind, name, _) in enumerate(ops):
            st = steps_of(c, name)
            if st is None:
                return None, "function %s is not in the driver's table" % name
            fl += [(code, i) for code in st]
        flat.append(fl)
    ptr = [0] * len(progs)
    ticks = []
    for e in events:
        t, kind = e[0], e[1]
        fl = flat[t]

        def head():
            return fl[ptr[t]][0] if ptr[t] < len(fl) else None
        if kind == "acq":
            if head() != "A":
                return None, "thread %d acquired the lock where the probed steps have %s" % (t, head())
            ptr[t] += 1
            ticks.append(t)
        elif kind == "enter":
            if head() is None or not head().startswith("N"):
                return None, "thread %d made native call %s where the probed steps have %s" % (t, e[2], head())
            ticks.append(t)
        elif kind == "exit":
            ptr[t] += 1
            ticks.append(t)
        elif kind == "rel":
            while head() == "C":
                ptr[t] += 1
                ticks.append(t)
            if head() != "R":
                return None, "thread %d released the lock where the probed steps have %s" % (t, head())
            ptr[t] += 1
            ticks.append(t)
        elif kind == "read":
            i = e[2]
            while ptr[t] < len(fl) and fl[ptr[t]][1] == i:
                if fl[ptr[t]][0] != "C":
                    return None, "operation %d of thread %d ended before its probed step %s" % (i, t, fl[ptr[t]][0])
                ptr[t] += 1
                ticks.append(t)
        elif kind in ("blocked", "self-deadlock"):
            pass
    return ticks, None


def canon_flags(out):
    if not out.startswith("ok "):
        return out
    return "ok " + "|".join(";".join(x.split(";")[:2]) for x in out[3:].split("|"))


# ---------------------------------------------------------------- one schedule

def check_schedule(c, progs, preempts, serial, kind, model=True):
    """run the real threads under one schedule; property: every thread's results = serial; correspondence with the model"""
    s, res = controlled(progs, preempts)
    switched = len(s.switches) > 0
    c.count((progs, preempts), nontrivial=switched and len(progs) >= 2)
    c.tally("%s:%s" % (kind, "preempted" if switched else "not-preempted"))
    rec_base = {"op": "schedule", "programs": progs, "preempts": [list(p) for p in preempts], "kind": kind,
                "switches": [list(x) for x in s.switches]}
    for e in s.events:
        if e[1] == "enter" and not e[3]:
            c.fail("native entry point %s runs without the library's lock (thread %d)" % (e[2], e[0]),
                   dict(rec_base, op="unlocked-native", native=e[2], thread=e[0]))
            break
    ok = True
    for t in range(len(progs)):
        if res[t] != serial[t]:
            ok = False
            bad = [i for i in range(len(progs[t])) if not isinstance(res[t], list) or i >= len(res[t]) or res[t][i] != serial[t][i]]
            c.fail("thread %d returns a different result under this schedule than when run serially (operation %s)"
                   % (t, [progs[t][i] for i in bad[:3]]),
                   dict(rec_base, thread=t, serial=repr(serial[t])[:3000], concurrent=repr(res[t])[:3000]))
    if model and all(d[0] == "bind" for ops in progs for d in ops) and c.driver_ok:
        ticks, why = model_schedule(c, progs, s.events)
        if ticks is None:
            c.broken.append(("correspondence", "run does not follow the probed steps: %s %s" % (why, json.dumps(rec_base)[:300])))
        else:
            line = "lock.run %s %s" % ("|".join(",".join(d[1] for d in ops) or "-" for ops in progs),
                                       ",".join(map(str, ticks)) or "-")
            impl = "ok " + "|".join("1;%d" % int(res[t] == serial[t]) for t in range(len(progs)))
            c.expect(line, impl, dict(rec_base, ticks=len(ticks)), proven=False, op="lock.run", canon=canon_flags)
            c.expect("lockctx" + line[4:], impl, dict(rec_base, ticks=len(ticks)), proven=False, op="lockctx.run",
                     canon=canon_flags)
    return s, res, ok


def baseline(c, progs):
    """serial results: plain (no instrumentation) and scheduler without preemption must agree"""
    plain = plain_serial(progs)
    s, res = controlled(progs, [])
    if res != plain:
        c.broken.append(("correspondence", "the instrumented serial run differs from the plain serial run for %s" % (progs,)))
    return plain, s


def sweep(c, progs, kind, points=None, to=1, model=True):
    """single preemption of thread 0 at every (or the given) scheduling point"""
    serial, s0 = baseline(c, progs)
    k0 = s0.points[0]
    c.tally("points-thread0:%s" % kind, k0)
    ks = range(k0 + 1) if points is None else points(k0)
    for k in ks:
        check_schedule(c, progs, [(k, to)], serial, kind, model)
        if len(c.pending) > 400:
            c.flush()
    return k0


def sample_schedules(c, progs, kind, n, npre=2):
    serial, s0 = baseline(c, progs)
    total = sum(s0.points)
    nt = len(progs)
    for _ in range(n):
        pre = sorted((c.rng.randrange(0, total + 1), c.rng.randrange(nt)) for _ in range(npre))
        check_schedule(c, progs, pre, serial, kind)
        if len(c.pending) > 400:
            c.flush()


# ---------------------------------------------------------------- program families

DIRECT_CORE = ["rangeproof_rewind", "schnorrsig_sign", "ec_pubkey_tweak_add", "pedersen_blind_generator_blind_sum",
               "surjectionproof_generate", "ecdsa_signature_serialize_der", "ecdh:hashfn", "xonly_pubkey_from_pubkey"]


def context_writers_observed():
    """behavioural probe, independent of the recorded symbol names: which probed binding functions change the MEMORY of
    the library context object (`secp256k1_context_preallocated_size` bytes at `_secp.ctx`, compared before / after the
    call). `_init` makes and randomises a new context object; the module import is that same call. None when the loaded
    library does not export the size function."""
    import ctypes
    try:
        f = B._secp.secp256k1_context_preallocated_size
    except AttributeError:
        return None
    f.restype, f.argtypes = ctypes.c_size_t, [ctypes.c_uint]
    n = f(B.CONTEXT_SIGN | B.CONTEXT_VERIFY) if hasattr(B, "CONTEXT_SIGN") else f(0x301)
    if not (0 < n < (1 << 24)):
        return None
    writers = []
    with deadline(60.0, "the context-write probe"):
        lib = B._init()
        if getattr(lib, "ctx", None) and any(ctypes.string_at(lib.ctx, n)):
            writers += ["<import>", "_init"]
        for nm in direct_names():
            thunk = prepare(("bind", nm, 0))
            before = ctypes.string_at(B._secp.ctx, n)
            try:
                thunk()
            except Exception:
                pass
            if ctypes.string_at(B._secp.ctx, n) != before:
                writers.append(nm)
    return writers


def direct_names():
    return [f["name"] for f in facts.LAST_BINDING.get("facts", []) if f["probed"] and f["callsNative"] and f["name"] != "_init" and not f["name"].startswith("<")]


def corpus(c):
    """the D32 witness schedule: two threads rewinding different range proofs, thread 0 preempted after every line"""
    sweep(c, [[("bind", "rangeproof_rewind", 0)], [("bind", "rangeproof_rewind", 1)]], "corpus:rewind|rewind")
    sweep(c, [[("hl", "unblind_vout", 0)], [("hl", "unblind_vout", 1)]], "corpus:unblind|unblind", model=False)
    p = os.path.join(VERIF, "corpus", "C20.json")
    if os.path.exists(p):
        for e in json.load(open(p)):
            progs = [[tuple(d) for d in ops] for ops in e["programs"]]
            serial, _ = baseline(c, progs)
            check_schedule(c, progs, [tuple(x) for x in e["preempts"]], serial, "corpus:" + e.get("kind", ""))
    c.flush()


def quick(c):
    names = direct_names()
    # every probed function once against rangeproof_rewind / itself (pairs of direct binding calls, full sweep)
    for nm in names:
        other = c.rng.choice(names)
        progs = [[("bind", nm, 0)], [("bind", other, 1), ("bind", nm, 2)]]
        sweep(c, progs, "direct")
    for nm in DIRECT_CORE:
        if nm in names:
            sweep(c, [[("bind", nm, 0), ("bind", "rangeproof_rewind", 0)], [("bind", "rangeproof_rewind", 1), ("bind", nm, 1)]],
                  "direct-core")
    c.flush()
    # key / signature operations through embit.ec
    hl = ["ec_sign", "ec_schnorr", "ec_pub", "ec_tweak", "ec_ecdh"]
    for a in hl:
        b = c.rng.choice(hl)
        sweep(c, [[("hl", a, 0)], [("hl", b, 1)]], "ec", model=False)
    # Liquid: unblinding of the recorded PSET (inputs) and of its blinded outputs
    sweep(c, [[("hl", "unblind_pset", 0)], [("hl", "unblind_pset", 1)]], "unblind-pset", model=False)
    sweep(c, [[("hl", "unblind_input", 0)], [("hl", "unblind_vout", 1)]], "unblind-mixed", model=False)
    # blinding: sampled preemption points
    sweep(c, [[("hl", "blind_pset", 0)], [("hl", "blind_pset", 1)]], "blind-pset", model=False,
          points=lambda k0: sorted(c.rng.sample(range(k0 + 1), min(60, k0 + 1))))
    # three threads, two preemptions
    names3 = [c.rng.choice(names) for _ in range(6)]
    sample_schedules(c, [[("bind", "rangeproof_rewind", 0), ("bind", names3[0], 0)],
                         [("bind", names3[1], 1), ("bind", "rangeproof_rewind", 1)],
                         [("bind", "rangeproof_rewind", 2), ("bind", names3[2], 2)]], "direct-3threads", 150)
    sample_schedules(c, [[("hl", "unblind_vout", 0)], [("hl", "unblind_input", 1)], [("hl", "ec_sign", 2)]],
                     "mixed-3threads", 60)
    c.flush()


def thorough(c):
    quick(c)
    names = direct_names()
    for _ in range(60):
        progs = [[("bind", c.rng.choice(names), c.rng.randrange(NPOOL)) for _ in range(c.rng.choice([1, 2, 3]))]
                 for _ in range(c.rng.choice([2, 3]))]
        sample_schedules(c, progs, "direct-random", 120, npre=c.rng.choice([1, 2, 3]))
    hl = ["ec_sign", "ec_schnorr", "ec_pub", "ec_tweak", "ec_ecdh", "unblind_vout", "unblind_input", "unblind_pset"]
    for _ in range(30):
        progs = [[("hl", c.rng.choice(hl), c.rng.randrange(NPOOL)) for _ in range(c.rng.choice([1, 2]))]
                 for _ in range(3)]
        sample_schedules(c, progs, "mixed-random", 100, npre=2)
    for a in ("unblind_pset", "blind_pset"):
        sample_schedules(c, [[("hl", a, 0)], [("hl", a, 1)], [("hl", "unblind_vout", 2)]], "liquid-3threads", 300)
    sweep(c, [[("hl", "blind_pset", 0)], [("hl", "blind_pset", 1)]], "blind-pset-full", model=False)
    c.flush()


# ---------------------------------------------------------------- failing-input search (obligation / correspondence broken)

def fact_failures():
    """the obligations of Props/C20.lean evaluated on the probe's facts (for messages and for the search)"""
    lb = facts.LAST_BINDING
    out = []
    for f in lb.get("facts", []):
        if f["callsNative"] and not f["nativeUnderLock"]:
            out.append(("every_entry_locked", f))
        if not f["outBuffersFresh"]:
            out.append(("buffers_fresh", f))
        if f["lockReentered"]:
            out.append(("no_reentrant_acquire", f))
        if not f["probed"]:
            out.append(("all_probed", f))
    return out


def completeness_failures():
    """Props/C20Complete.every_enumerated_entry_locked evaluated in Python: functions of the loaded module that reach the
    library in the independent call graph (harness/bindnames.py) and have no record in the probe table"""
    recs = [f["name"] for f in facts.LAST_BINDING.get("facts", [])]
    return [n for n in facts.LAST_BINDING_NAMES.get("reach", [])
            if not any(r == n or r.startswith(n + ":") for r in recs)]


class _Forward:
    """stands in for a module global that is another name of the library object: looks `_secp` up at call time, so that
    the probe's recording proxy (installed as `_secp`) also sees calls made through the alias"""

    def __getattr__(self, k):
        return getattr(B._secp, k)


@contextlib.contextmanager
def library_aliases_forwarded():
    lib = B._secp
    saved = {k: v for k, v in vars(B).items() if v is lib and k != "_secp"}
    for k in saved:
        setattr(B, k, _Forward())
    try:
        yield
    finally:
        for k, v in saved.items():
            setattr(B, k, v)


def probe_unlisted(c, name):
    """a function the probe table lost: exercise it directly under the recording lock / library proxy"""
    fn = getattr(B, name, None)
    if fn is None:
        return
    mks = [mk for (_, mk) in bindprobe.RECIPES.get(name, [])] or [bindprobe.guess_recipe(fn)]
    for mk in mks:
        if mk is None:
            mk = lambda P: ((), {})
        try:
            with deadline(60.0, "the direct probe of " + name), library_aliases_forwarded():
                r = bindprobe.probe_variant(B, name, fn, mk, bindprobe.pool(B, 0), bindprobe.pool(B, 1), bindprobe.const_ids(B))
        except Exception as e:
            c.extra.setdefault("completeness_probe_errors", []).append("%s: %s: %s" % (name, type(e).__name__, e))
            continue
        for (sym, held, site) in r["natives"]:
            if not held:
                c.fail("function %s of the binding module (absent from the probed table) calls native %s without holding "
                       "the library's lock (line %s of %s)" % (name, sym, site[2], os.path.basename(B.__file__)),
                       {"op": "unlocked-unlisted", "entry": name, "native": sym, "site": list(site),
                        "theorem": "every_enumerated_entry_locked"})
                return


def search(c):
    """look for a concrete witness on the real code for whatever no longer checks"""
    for name in completeness_failures():
        probe_unlisted(c, name)
    for (thm, f) in fact_failures():
        name = f["name"]
        if thm == "every_entry_locked":
            for (sym, site) in f["unlocked"]:
                c.fail("entry point %s calls native %s without holding the library's lock (line %s of %s)"
                       % (name, sym, site[2], os.path.basename(facts.LAST_BINDING.get("file", ""))),
                       {"op": "unlocked-entry", "entry": name, "native": sym, "site": list(site), "theorem": thm})
        elif thm == "no_reentrant_acquire":
            c.fail("entry point %s acquires the lock while holding it: the call never returns (threading.Lock is not reentrant)"
                   % name, {"op": "reentrant-entry", "entry": name, "theorem": thm})
        elif thm == "buffers_fresh":
            try:
                bind_recipe(name)
            except KeyError:
                continue
            for other in (name, "rangeproof_rewind"):
                sweep(c, [[("bind", name, 0)], [("bind", other, 1)]], "search:shared-buffer")
                if c.violations:
                    break
            if not c.violations:
                # sequential symptom: a later call overwrites an earlier call's result
                progs = [[("bind", name, 0), ("bind", name, 1)]]
                fn, mk = bind_recipe(name)
                a0, k0 = bindprobe.clone(mk(P(0)))
                a1, k1 = bindprobe.clone(mk(P(1)))
                r0 = fn(*a0, **k0)
                v0 = bindprobe.canon((r0, a0))
                r1 = fn(*a1, **k1)
                if bindprobe.canon((r0, a0)) != v0:
                    c.fail("a second call of %s overwrites the result object of the first call" % name,
                           {"op": "sequential-alias", "entry": name, "programs": progs, "theorem": thm})
    if not c.violations:
        corpus(c)
    if not c.violations:
        quick(c)


# ---------------------------------------------------------------- entry points

def run(tier, seed):
    c = Check(PROP, MODS, tier, seed)
    c.rule = ("programs of 2-3 threads, each a short sequence of binding-backed operations on thread-private inputs: every "
              "probed function of embit.util.ctypes_secp256k1 called directly, key/signature operations through embit.ec "
              "(ECDSA, Schnorr, tweaks, x-only, ECDH), Liquid unblinding of the recorded PSET's inputs and blinded outputs, "
              "PSET blinding; schedules = one preemption of thread 0 at EVERY traced line (sweep) and seeded samples with 2-3 "
              "preemptions among 3 threads. Distinct by (programs, preemption points); non-trivial = a preemption actually "
              "switched threads")
    c.assumptions = ["PARTIAL: the GIL, ctypes and libsecp256k1 are outside the model; native calls are atomic for the "
                     "cooperative scheduler (a data race inside C cannot be observed, only that a native call is made "
                     "without the lock)",
                     "preemption granularity = Python source lines of the binding module and its immediate callers",
                     "thread-private inputs: no object is shared between the threads' operations"]
    t0 = time.time()
    try:
        with deadline(120.0, "the probe of the binding module"):
            changed, err = facts.regenerate("binding")
    except Timeout as e:
        changed, err = False, str(e)
    if err:
        c.broken.append(("facts", "cannot probe the binding module: " + err))
    elif changed:
        c.extra["facts_drift"] = ("Generated/BindingFacts.lean differed from the probe of the loaded module and was rewritten; "
                                  "its dependants (Props/C20, driver) are rebuilt by this run")
    for o in facts.LAST_BINDING.get("obligations", []):
        c.broken.append(("facts", "undischarged: " + o))
    # the independent enumeration (audit2 A-7): bounds the probe table from below in Props/C20Complete.lean
    changed2, err2 = facts.regenerate("bindingnames")
    if err2:
        c.broken.append(("facts", "cannot enumerate the binding module: " + err2))
    elif changed2:
        c.extra["names_drift"] = "Generated/BindingNames.lean differed from the enumeration of the loaded module and was rewritten"
    missing = completeness_failures()
    for n in missing:
        c.broken.append(("facts", "completeness: function %s of the binding module reaches the library (bytecode call graph) "
                                  "but has no record in the probed table" % n))
    c.extra["enumeration"] = {"functions": len(facts.LAST_BINDING_NAMES.get("rows", [])),
                              "reaching_the_library": len(facts.LAST_BINDING_NAMES.get("reach", [])),
                              "source_defs_mentioning_secp": len(facts.LAST_BINDING_NAMES.get("secp_defs", [])),
                              "exempt": facts.LAST_BINDING_NAMES.get("exempt", []), "without_record": missing}
    ff = fact_failures()
    if ff:
        c.extra["fact_failures"] = [{"theorem": t, "function": f["name"], "unlocked": f["unlocked"], "shared": f["shared"]}
                                    for (t, f) in ff]
    c.extra["probe"] = {"functions": len(facts.LAST_BINDING.get("facts", [])),
                        "native_call_sites": len(facts.LAST_BINDING.get("sites", [])),
                        "seconds": round(time.time() - t0, 2)}
    c.build_and_audit()
    if c.driver_ok:
        names = ",".join(f["name"] for f in facts.LAST_BINDING.get("facts", []))
        c.expect("lock.fns", "ok " + names, {"what": "the driver was built from this run's probe"}, proven=False)
        try:
            obs = context_writers_observed()
        except Timeout as e:
            obs = None
            c.broken.append(("facts", str(e)))
        if obs is None:
            c.extra["context_write_probe"] = "skipped: the loaded library does not export secp256k1_context_preallocated_size"
        else:
            order = [f["name"] for f in facts.LAST_BINDING.get("facts", [])]
            obs = sorted(set(obs), key=lambda x: order.index(x) if x in order else len(order))
            c.extra["context_write_probe"] = {"writers_observed": obs}
            c.expect("lockctx.writers", "ok " + ",".join(obs),
                     {"what": "probed functions whose call changes the memory of the library context vs. the functions "
                              "the model compiles to context writers (by native symbol)"}, proven=False)
        c.flush()
    c.extra["traced_files"] = sorted(os.path.relpath(f, REPO) for f in trace_files())
    if not c.broken:
        corpus(c)
        if tier == "quick":
            quick(c)
        else:
            thorough(c)
    return c.finish(search=search)


def replay(path):
    r = json.load(open(path))
    op = r.get("op")
    print("replay", path, "op =", op)
    facts.binding_facts()          # probe the loaded module (nothing is written)
    if op == "unlocked-unlisted":
        name = r["entry"]
        fn = getattr(B, name, None)
        if fn is None:
            print("function %s is no longer in the module" % name)
            return 0
        mk = ([mk for (_, mk) in bindprobe.RECIPES.get(name, [])] or [bindprobe.guess_recipe(fn)])[0] or (lambda P: ((), {}))
        with library_aliases_forwarded():
            pr = bindprobe.probe_variant(B, name, fn, mk, bindprobe.pool(B, 0), bindprobe.pool(B, 1), bindprobe.const_ids(B))
        bad = [(sym, site) for (sym, held, site) in pr["natives"] if not held]
        print("native calls of %s:" % name, [(sym, held) for (sym, held, _) in pr["natives"]])
        print("property", "FAILS" if bad else "holds", "for this function")
        return 1 if bad else 0
    if op in ("unlocked-entry", "reentrant-entry", "sequential-alias"):
        name = r["entry"]
        f = [x for x in facts.LAST_BINDING["facts"] if x["name"] == name]
        if not f:
            print("entry point %s is no longer in the module" % name)
            return 0
        f = f[0]
        print("probe of %s: callsNative=%s nativeUnderLock=%s outBuffersFresh=%s lockReentered=%s" %
              (name, f["callsNative"], f["nativeUnderLock"], f["outBuffersFresh"], f["lockReentered"]))
        print("  steps:", f["steps"])
        print("  native calls made without the lock:", f["unlocked"])
        print("  shared out-buffers:", f["shared"])
        bad = (f["callsNative"] and not f["nativeUnderLock"]) or f["lockReentered"] or not f["outBuffersFresh"]
        print("property", "FAILS" if bad else "holds", "for this entry point")
        return 1 if bad else 0
    if "programs" not in r:
        print(json.dumps(r, indent=1)[:3000])
        return 0
    progs = [[tuple(d) for d in ops] for ops in r["programs"]]
    pre = [tuple(x) for x in r.get("preempts", [])]
    serial = plain_serial(progs)
    s, res = controlled(progs, pre)
    print("programs:", progs)
    print("preemptions (scheduling point, to thread):", pre, " performed:", s.switches)
    bad = False
    for t in range(len(progs)):
        same = res[t] == serial[t]
        bad = bad or not same
        print("thread %d: %s" % (t, "same as serial" if same else "DIFFERS from serial"))
        if not same:
            print("   serial    :", repr(serial[t])[:1500])
            print("   concurrent:", repr(res[t])[:1500])
    for e in s.events:
        if e[1] == "enter" and not e[3]:
            print("native call %s made without the lock by thread %d" % (e[2], e[0]))
            bad = True
    if all(d[0] == "bind" for ops in progs for d in ops) and os.path.exists(os.path.join(VERIF, "lean", ".lake", "build", "bin", "driver")):
        class _C:
            pass
        ticks, why = model_schedule(None, progs, s.events)
        if ticks is not None:
            out = run_driver(["lock.run %s %s" % ("|".join(",".join(d[1] for d in ops) or "-" for ops in progs),
                                                   ",".join(map(str, ticks)) or "-")])[0]
            print("model, driver as last built (done;serial;values per thread):", out)
        else:
            print("model: run does not follow the probed steps:", why)
    print("property", "FAILS" if bad else "holds", "on this schedule")
    return 1 if bad else 0
