"""C04 — PSBT parse/serialise is lossless for every field, known or unknown.

Model: lean/EmbitModel/Model/Psbt.lean; theorems: Props/C04.lean and Props/C04X.lean (serialise-then-parse,
well-formedness of parse results, rejection rules, PSBTv2 transaction = BIP370 transaction). Every generated PSBT (and every corruption) is
parsed by embit and by the Lean model in all three compression modes and the resulting objects are compared field
by field (`psbt.parse`), as are re-serialisation (`psbt.roundtrip`) and the reconstructed unsigned transaction
(`psbt.tx`). Independently of the model the property itself is evaluated on embit: no pair of the original lost,
identical unsigned transaction, serialise∘parse identity, structurally invalid inputs rejected."""
import base64
import io
import json
from collections import Counter

from core import Check, hx, run_driver
import gen
import gen_psbt
import facts

from embit.psbt import PSBT

PROP = "C04"
MODS = ["EmbitModel.Props.C04", "EmbitModel.Props.C04X"]


def on(x):
    return "None" if x is None else str(x)


def ob(x):
    return "None" if x is None else hx(x)


def skv(pairs):
    return ",".join(hx(k) + ":" + hx(v) for k, v in pairs) if pairs else "-"


def scope_pairs(scope, version):
    s = io.BytesIO()
    scope.write_to(s, version=version)
    sc = gen_psbt.split_scopes(b"psbt\xff" + s.getvalue())
    assert len(sc) == 1
    return sc[0]


def dump(p):
    t = [on(p.version), on(p.tx_version), on(p.locktime),
         skv([(x.serialize(), d.serialize()) for x, d in p.xpubs.items()]), skv(list(p.unknown.items()))]
    for i in p.inputs:
        u = i._utxo
        t += ["I", ob(i.txid), on(i.vout), on(i.sequence),
              "None" if u is None else "%d/%s" % (u.value, hx(u.script_pubkey.data)), ob(i._txhash),
              skv(scope_pairs(i, p.version))]
    for o in p.outputs:
        t += ["O", on(o.value), "None" if o.script_pubkey is None else hx(o.script_pubkey.data),
              skv(scope_pairs(o, p.version))]
    return " ".join(t)


def impl_parse(b, compress):
    try:
        return PSBT.parse(b, compress=compress)
    except Exception:
        return None


def expected_tx(g):
    """the unsigned transaction BIP174/370 assign to the generated PSBT, built independently"""
    tx = g["tx"]
    return gen.raw_tx(tx.version, [(i.txid, i.vout, b"", i.sequence) for i in tx.vin],
                      [(o.value, o.script_pubkey.data) for o in tx.vout], tx.locktime)


def check_lossless(c, b, p, kind, g=None):
    """property predicate on embit alone (KEEP_ALL): nothing lost, same unsigned tx, ser/parse identity"""
    try:
        orig = gen_psbt.split_scopes(b)
    except Exception:
        c.fail("accepted a PSBT whose key-value framing is malformed", {"op": "psbt.lossless", "kind": kind, "bytes": hx(b)[:20000]})
        return
    out = p.serialize()
    new = gen_psbt.split_scopes(out)
    rec = {"op": "psbt.lossless", "kind": kind, "bytes": hx(b)[:20000], "reserialized": hx(out)[:20000]}
    if len(orig) != len(new):
        c.fail("scope count changed on re-serialisation", rec)
        return
    for si, (a, d) in enumerate(zip(orig, new)):
        ca, cd = Counter(a), Counter(d)
        lost = [kvp for kvp in ca if ca[kvp] > cd[kvp]]
        if lost:
            c.fail("key-value pair of the original lost or altered in scope %d" % si,
                   dict(rec, scope=si, lost=[(hx(k), hx(v)[:200]) for k, v in lost[:3]]))
            return
        if len(set(k for k, _ in a)) != len(a):
            c.fail("duplicate key accepted in scope %d" % si, dict(rec, scope=si))
            return
    if g is not None:
        try:
            got = p.tx.serialize()
        except Exception as e:
            got = b"raise"
        if got != expected_tx(g):
            c.fail("unsigned transaction differs from the one the PSBT describes", dict(rec, tx=hx(got), expected=hx(expected_tx(g))))
    # serialise then parse gives an equal object
    p2 = impl_parse(out, 0)
    if p2 is None or p2.serialize() != out:
        c.fail("serialise-then-parse is not the identity", rec)


def check_bip370(c, kind, b, p):
    """accepted PSBTv2: embit's reconstructed transaction against the BIP370 transaction of the RAW maps
    (Spec/Bip370.lean, evaluated by the driver; C04X.v2_tx_eq_bip370_partial proves model = spec). The two regions
    the theorem excludes are skipped here and pinned by the witness cases in `witnesses`."""
    if p.version != 2:
        return
    try:
        sc = gen_psbt.split_scopes(b)
    except Exception:
        return
    nin = len(p.inputs)
    gkeys = [k for k, _ in sc[0]]
    if b"\x02" not in gkeys:
        c.tally("bip370:skipped-no-tx-version")
        return
    if any(k in (b"\x11", b"\x12") for m in sc[1:1 + nin] for k, _ in m):
        c.tally("bip370:skipped-required-locktime")
        return
    try:
        p.tx.serialize()
        txs = "ok " + gen.tx_tokens(p.tx)
    except Exception:
        txs = "none"
    c.tally("bip370:compared")
    c.count(("bip370", b), nontrivial=True)
    c.expect("psbt.bip370 " + hx(b), txs, {"kind": kind, "bytes": hx(b)[:20000]}, proven=True)


def ss(x):
    assert len(x) < 253
    return bytes([len(x)]) + x


def frame(scopes):
    return b"psbt\xff" + b"".join(b"".join(ss(k) + ss(v) for k, v in m) + b"\x00" for m in scopes)


def witnesses(c):
    """the concrete points named in Props/C04X.lean, replayed on embit and on the model"""
    G = [(b"\xfb", bytes([2, 0, 0, 0])), (b"\x02", bytes([2, 0, 0, 0])), (b"\x03", bytes([7, 0, 0, 0])),
         (b"\x04", b"\x01"), (b"\x05", b"\x01")]
    I = [(b"\x0e", bytes([7] * 32)), (b"\x0f", bytes([1, 0, 0, 0]))]
    O = [(b"\x03", bytes([0x88, 0x13, 0, 0, 0, 0, 0, 0])), (b"\x04", b"\x51")]
    base = frame([G, I, O])
    req = frame([G, I + [(b"\x12", bytes([0x40, 0x0d, 0x03, 0x00]))], O])
    notv = frame([[x for x in G if x[0] != b"\x02"], I, O])
    for name, b, lock, ver, spec in (
            ("base", base, 7, 2, "ok 2 7 1 " + "07" * 32 + " 1 - 4294967295 0 1 5000 51"),
            # C04X.required_locktime_ignored: embit uses the fallback lock time, BIP370 the required height
            ("required_locktime_ignored", req, 7, 2, "ok 2 200000 1 " + "07" * 32 + " 1 - 4294967295 0 1 5000 51"),
            # C04X.missing_tx_version_defaults_to_2: embit substitutes 2, BIP370 assigns no transaction
            ("missing_tx_version_defaults_to_2", notv, 7, 2, "none")):
        p = impl_parse(b, 0)
        c.count(("witness", name), nontrivial=True)
        c.tally("witness:" + name)
        info = {"kind": "witness:" + name, "bytes": hx(b)}
        if p is None or p.tx.locktime != lock or p.tx.version != ver:
            c.broken.append(("witness", "embit no longer behaves as C04X.%s states" % name))
            continue
        c.expect("psbt.tx 0 " + hx(b), "ok " + gen.tx_tokens(p.tx), info, proven=False)
        c.expect("psbt.bip370 " + hx(b), spec, info, proven=False)
    # rejection rules of C04X on embit itself (the model side is proved): tx in v2, no tx in v0, duplicate
    # global key, duplicate scope key, count mismatch, PSBTv2 scope field in a version-0 scope
    tx = gen.raw_tx(2, [(bytes([7] * 32), 1, b"", 0xffffffff)], [(5000, b"\x51")], 0)
    G0 = [(b"\x00", tx)]
    bad = {
        "tx_in_v2": frame([G + G0, I, O]),
        "missing_tx_v0": frame([[(b"\xfb", bytes(4))], [], []]),
        "global_duplicate_key": frame([G + [(b"\xf0", b"\x01"), (b"\xf0", b"\x02")], I, O]),
        "scope_duplicate_key": frame([G, I + [(b"\xf0", b"\x01"), (b"\xf0", b"\x02")], O]),
        "count_mismatch_v2": frame([G, I, O, []]),
        "count_mismatch_v0": frame([G0, [], [], []]),
        "v2_scope_field_in_v0_input": frame([G0, [(b"\x10", bytes(4))], []]),
        "v2_scope_field_in_v0_output": frame([G0, [], [(b"\x04", b"\x51")]]),
    }
    ok = impl_parse(frame([G0, [], []]), 0)
    if ok is None:
        c.broken.append(("witness", "the version-0 base case of the rejection witnesses is not accepted"))
    for name, b in bad.items():
        c.count(("reject", name), nontrivial=True)
        c.tally("reject:" + name)
        info = {"kind": "reject:" + name, "bytes": hx(b)}
        if impl_parse(b, 0) is not None:
            c.fail("structurally invalid PSBT accepted (%s)" % name, {"op": "psbt.parse", "kind": name, "bytes": hx(b)})
        c.expect("psbt.parse 0 " + hx(b), "none", info, proven=True)
    # C04X.utxo_duplicate_rejected_all_modes / utxo_duplicate_parse_rejected_v0 / _v2: key 00 twice in an input scope,
    # every reader mode; with the key once every mode accepts (positive control)
    prev = gen.raw_tx(2, [(bytes([9] * 32), 0, b"\x51", 0xfffffffe)], [(1, b"\x51"), (5000, b"\x6a")], 0)
    for name, once, twice in (
            ("v2", frame([G, I + [(b"\x00", prev)], O]), frame([G, I + [(b"\x00", prev), (b"\x00", prev)], O])),
            ("v0", frame([G0, [(b"\x00", prev)], []]), frame([G0, [(b"\x00", prev), (b"\x04", b"\x51"), (b"\x00", prev)], []]))):
        for compress in (0, 1, 2):
            c.count(("reject", "utxo_duplicate", name, compress), nontrivial=True)
            c.tally("reject:utxo_duplicate_all_modes")
            info = {"kind": "reject:utxo_duplicate_%s" % name, "compress": compress, "bytes": hx(twice)}
            if impl_parse(once, compress) is None:
                c.broken.append(("witness", "the base case of utxo_duplicate (%s, mode %d) is not accepted" % (name, compress)))
            if impl_parse(twice, compress) is not None:
                c.fail("PSBT with a duplicated non-witness utxo accepted in reader mode %d (%s)" % (compress, name),
                       {"op": "psbt.parse", "kind": "utxo_duplicate_" + name, "compress": compress, "bytes": hx(twice)})
            c.expect("psbt.parse %d %s" % (compress, hx(twice)), "none", info, proven=True)


# Input-scope fields the memory-saving reader modes (compress = 1 / 2) do not keep: `InputScope.read_value` returns
# before looking at key or value ("we don't need this key for signing"): partial signatures (02), final scriptSig (07),
# final script witness (08). A duplicate of such a key is skipped unread like the first occurrence, nothing of it
# reaches the object, so no rejection is demanded for them in modes 1 / 2. Every other key of every scope is kept by
# every mode and a duplicate must be refused (for key 00 the modes keep only `_txhash` / `_utxo`: finding B3, fixed by
# fixes/fix-compress-dup-utxo.diff; model side: C04X.utxo_duplicate_rejected_all_modes).
SKIPPED_IN_MODES_1_2 = (0x02, 0x07, 0x08)


def dup_must_reject(kind, compress):
    """does the rejection predicate apply to the corruption `kind` in reader mode `compress`? KEEP_ALL: always (the
    caller's `must_reject`). Modes 1 / 2: for duplicated keys (`dup-pair:<scope>:<type>`, `dup-key:…`, `dup-tx`) of
    every field the mode keeps."""
    if compress == 0:
        return True
    parts = kind.split(":")
    if parts[0] == "dup-tx":
        return True
    if parts[0] not in ("dup-pair", "dup-key") or len(parts) != 3:
        return False
    return not (parts[1] == "in" and int(parts[2], 16) in SKIPPED_IN_MODES_1_2)


def check_bytes(c, kind, b, must_reject=None, g=None):
    for compress in (0, 1, 2):
        p = impl_parse(b, compress)
        try:
            res = "none" if p is None else "ok " + dump(p)
        except Exception as e:
            res = "err-dump"
            if compress == 0:
                c.fail("accepted PSBT cannot be re-serialised (%s)" % type(e).__name__,
                       {"op": "psbt.serialize", "kind": kind, "bytes": hx(b)[:20000]})
            p = None
        c.count(("psbt", compress, b), nontrivial=True)
        c.tally("%s:%s" % (kind.split(":")[0], "accepted" if p is not None else "rejected"))
        info = {"kind": kind, "compress": compress, "bytes": hx(b)[:20000]}
        c.expect("psbt.parse %d %s" % (compress, hx(b)), res, info, proven=False)
        if compress == 0:
            if p is not None:
                c.expect("psbt.roundtrip 0 " + hx(b), "ok " + hx(p.serialize()), info, proven=False)
                try:
                    p.tx.serialize()      # a scope lacking a transaction field gives no transaction
                    txs = "ok " + gen.tx_tokens(p.tx)
                except Exception:
                    txs = "err"
                c.expect("psbt.tx 0 " + hx(b), txs, info, proven=False)
                check_bip370(c, kind, b, p)
                if must_reject:
                    c.fail("structurally invalid PSBT accepted (%s)" % kind, {"op": "psbt.parse", "kind": kind, "bytes": hx(b)[:20000]})
                else:
                    check_lossless(c, b, p, kind, g)
            elif must_reject is False:
                c.fail("valid generated PSBT rejected", {"op": "psbt.parse", "kind": kind, "bytes": hx(b)[:20000]})
        elif must_reject and dup_must_reject(kind, compress):
            # the memory-saving modes: a duplicated key of a field the mode keeps (audit C4)
            c.tally("dup-in-mode-%d:%s" % (compress, "rejected" if p is None and res == "none" else "ACCEPTED"))
            if res != "none":
                c.fail("PSBT with a duplicated key accepted in reader mode %d (%s)" % (compress, kind),
                       {"op": "psbt.parse", "kind": kind, "compress": compress, "bytes": hx(b)[:20000]})
        elif must_reject and kind.split(":")[0] in ("dup-pair", "dup-key"):
            c.tally("dup-in-mode-%d:skipped-field-not-kept" % compress)


def check_psbt(c, g, corrupt=True):
    b = g["bytes"]
    c.tally("psbt:v%d/in%d/out%d" % (g["version"], min(len(g["tx"].vin), 5), min(len(g["tx"].vout), 5)))
    check_bytes(c, "valid", b, must_reject=False, g=g)
    # text encodings
    for enc, s in (("hex", b.hex()), ("base64", base64.b64encode(b).decode())):
        try:
            q = PSBT.from_string(s)
            ok = q.serialize() == PSBT.parse(b).serialize()
        except Exception:
            ok = False
        c.count(("enc", enc, b), nontrivial=True)
        if not ok:
            c.fail("PSBT.from_string(%s) differs from parsing the bytes" % enc, {"op": "psbt.from_string", "enc": enc, "bytes": hx(b)[:20000]})
    if corrupt:
        for kind, cb, must in gen_psbt.corruptions(c.rng, g):
            check_bytes(c, kind, cb, must_reject=must)
    c.sample({"version": g["version"], "bytes": hx(b)[:400]})


def explore(c, n, big):
    for k in range(n):
        g = gen_psbt.gen_psbt(c.rng, big=(big and k % 25 == 3))
        check_psbt(c, g)
        if k % 10 == 9:
            c.flush()
    c.flush()


def run(tier, seed):
    c = Check(PROP, MODS, tier, seed)
    c.rule = ("seeded PSBTs (v0 and v2; 1-4 inputs/outputs, occasionally 252-300) built by an independent byte builder over "
              "every BIP174/370/371 field type with random presence and order, unknown and proprietary keys, in binary, hex and "
              "base64; plus single-step corruptions (magic, truncation at sampled offsets, trailing byte, duplicated pair, "
              "duplicated key, dropped/extra separator, tx in v2, missing/duplicated tx in v0, swapped scopes, odd-length keys "
              "and values, bit flips); each parsed in the three compression modes; the rejection predicate is evaluated in "
              "mode 0 for every structural corruption and in modes 1 / 2 for duplicated keys of every field the mode keeps "
              "(input fields 02 / 07 / 08 are skipped unread there). Distinct by content.")
    c.assumptions = ["public-key validity inside keys is abstract in the theorems (KeyOps); the driver uses its own secp256k1",
                     "PSBTv2 required-locktime fields are carried as unknown keys (embit implements the fallback locktime "
                     "only; C04X.v2_tx_eq_bip370_partial excludes them, witness required_locktime_ignored)",
                     "well-formedness of PSBT objects (PsbtWF) is a predicate on model values; it is proved of every "
                     "parse result (C04X.parse_wf), not evaluated on embit objects"]
    changed, err = facts.regenerate("networks")
    if err:
        c.broken.append(("facts", "cannot extract embit.networks.NETWORKS: " + err))
    c.build_and_audit()
    witnesses(c)
    explore(c, 40 if tier == "quick" else 800, big=(tier != "quick"))
    return c.finish(search=lambda cc: explore(cc, 150, False))


def replay(path):
    r = json.load(open(path))
    print(json.dumps({k: (v if len(str(v)) < 1500 else str(v)[:1500]) for k, v in r.items()}, indent=1))
    return 0
