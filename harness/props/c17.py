"""C17 — every parser terminates promptly on hostile input with a value or an exception.

Theorems: Props/C17.lean — on the Lean models of the parsers (C03/C04/C05/C06) the number of loop iterations and the
size of what is built are bounded by the input length (+1), for every input: a count field can never drive more work
than there are bytes. Props/C17X.lean — the text parsers: the descriptor / miniscript / taptree recursion ends by itself,
steps <= 8|text|+22, depth <= |text|+1 (cost companions of Model/Cost.lean; tied below to the real code: the counts of
a counting BytesIO and wrapped read_from's must stay inside the proved bounds and the verdict must be the model's; exact
equality with the companion's numbers is only tallied). Props/C17Y.lean — the byte parsers with a step counter attached
(erasure to the model parsers, steps <= 5|b|+12 / 7|b|+12), tied by ops c17.txsteps / c17.psbtsteps. Props/C17Z.lean —
three-valued text parsers: never out of fuel; base58 quadratic / bech32, mnemonics, shares, Liquid, keys: size and loop bounds. Tie / runtime part: every public parse entry point of embit is run in a sacrificial worker
(address-space limit, per-call timer, tracemalloc peak) on structure-aware mutants (count and length fields set to
0xfc, 0xfd.., 2^16, 2^32-1, 2^64-1; truncation; deep nesting; repeated separators) and random data up to 64 KiB;
outcome must be value/exception within a time and memory budget linear in the input size. Partial: CPython's actual
time and memory are observed, not proved; quadratic big-integer work below the size bound is tolerated by the budget."""
import json
import os
import re
import subprocess
import sys

from core import Check, hx, VERIF, REPO
import gen
import gen_psbt

PROP = "C17"
MODS = ["EmbitModel.Props.C17", "EmbitModel.Props.C17X", "EmbitModel.Props.C17Y", "EmbitModel.Props.C17Z", "EmbitModel.Props.C17V"]

T_BASE, T_PER_BYTE = 0.30, 90e-6          # seconds (tracemalloc slows the interpreter ~3x)
M_BASE, M_PER_BYTE = 1_500_000, 1500      # bytes of traced peak


class Worker:
    def __init__(self):
        self.p = None
        self.start()

    def start(self):
        env = dict(os.environ, EMBIT_REPO=REPO)
        self.p = subprocess.Popen(["/venv/bin/python", "-W", "ignore", os.path.join(VERIF, "harness", "c17worker.py")],
                                  stdin=subprocess.PIPE, stdout=subprocess.PIPE, stderr=subprocess.DEVNULL, env=env)
        hello = json.loads(self.p.stdout.readline())
        self.eps = hello["ready"]

    def call(self, ep, data, text):
        try:
            self.p.stdin.write((json.dumps({"ep": ep, "data": data.hex(), "text": text}) + "\n").encode())
            self.p.stdin.flush()
            line = self.p.stdout.readline()
            if not line:
                raise BrokenPipeError()
            return json.loads(line)
        except (BrokenPipeError, ValueError):
            rc = self.p.wait()
            self.start()
            return {"o": "crash:%s" % rc, "t": 0, "m": 0}

    def close(self):
        try:
            self.p.stdin.close()
            self.p.wait(timeout=5)
        except Exception:
            self.p.kill()


HUGE = [b"\xfc", b"\xfd\xfd\x00", b"\xfd\xff\xff", b"\xfe\x00\x00\x01\x00", b"\xfe\xff\xff\xff\xff", b"\xfe\x40\x42\x0f\x00",
        b"\xff\x00\x00\x00\x00\x01\x00\x00\x00", b"\xff\xff\xff\xff\xff\xff\xff\xff\xff", b"\xff\xff\xff\xff\xff\xff\xff\xff\x7f",
        b"\x00", b"\xfd\x00\x00"]


def byte_mutants(rng, b, n):
    L = len(b)
    out = []
    for _ in range(n):
        r = rng.random()
        if L == 0:
            out.append(("random", gen.rbytes(rng, rng.randrange(0, 200))))
        elif r < 0.45:
            p = rng.randrange(L)
            w = rng.choice([1, 1, 1, 3, 5, 9])
            out.append(("count", b[:p] + rng.choice(HUGE) + b[p + w:]))
        elif r < 0.55:
            out.append(("truncate", b[:rng.randrange(L)]))
        elif r < 0.65:
            out.append(("separators", b + b"\x00" * rng.choice([1, 100, 5000, 60000])))
        elif r < 0.75:
            p = rng.randrange(L)
            q = min(L, p + rng.randrange(1, 64))
            out.append(("repeat-chunk", (b[:p] + b[p:q] * rng.choice([10, 300, 2000]) + b[q:])[:65536]))
        elif r < 0.85:
            c = bytearray(b)
            for _ in range(rng.randrange(1, 6)):
                c[rng.randrange(L)] = rng.getrandbits(8)
            out.append(("bytes", bytes(c)))
        else:
            out.append(("random", gen.rbytes(rng, rng.choice([0, 1, 7, 100, 4096, 65536]))))
    return out


BIGN = [0xFC, 0xFD, 0xFFFF, 0x10000, 10**6, 2**32 - 1, 2**32, 2**63, 2**64 - 1]


def psbt_targeted(rng, b):
    """count fields inside a PSBT set to attacker-chosen values: v2 scope counts, taproot leaf-hash counts, counts
    inside the global / previous transactions, witness item counts"""
    try:
        scopes = gen_psbt.split_scopes(b)
    except Exception:
        return []
    out = []

    def rebuild(sc):
        return b"psbt\xff" + b"".join(b"".join(gen.kv(k, v) for k, v in x) + b"\x00" for x in sc)

    for si, sc in enumerate(scopes):
        for pi, (k, v) in enumerate(sc):
            targets = []
            if si == 0 and k in (b"\x04", b"\x05"):
                targets = [gen.cs(n) for n in BIGN]
            elif k[:1] in (b"\x16", b"\x07") and len(k) == 33:
                targets = [gen.cs(n) + v[1:] for n in BIGN]
            elif k in (b"\x00", b"\x08") and len(v) > 5:
                pos = 4 if k == b"\x00" else 0
                targets = [v[:pos] + gen.cs(n) + v[pos + 1:] for n in rng.sample(BIGN, 4)]
            for t in targets:
                sc2 = [list(x) for x in scopes]
                sc2[si][pi] = (k, t)
                out.append(("psbt-count", rebuild(sc2)))
    # a v2 header claiming many scopes with nothing behind it
    for n in BIGN:
        out.append(("psbt-count", b"psbt\xff" + gen.kv(b"\x02", b"\x02\x00\x00\x00") + gen.kv(b"\x04", gen.cs(n))
                    + gen.kv(b"\x05", gen.cs(1)) + gen.kv(b"\xfb", b"\x02\x00\x00\x00") + b"\x00"))
        out.append(("psbt-count", b"psbt\xff" + gen.kv(b"\x02", b"\x02\x00\x00\x00") + gen.kv(b"\x04", gen.cs(1))
                    + gen.kv(b"\x05", gen.cs(n)) + gen.kv(b"\xfb", b"\x02\x00\x00\x00") + b"\x00\x00"))
    rng.shuffle(out)
    # the true worst case of the object representation: tens of thousands of empty scopes (1 byte each)
    n = rng.choice([3000, 60000])
    out.insert(0, ("psbt-many-empty-scopes", b"psbt\xff" + gen.kv(b"\x02", b"\x02\x00\x00\x00") + gen.kv(b"\x04", gen.cs(n))
                   + gen.kv(b"\x05", gen.cs(0)) + gen.kv(b"\xfb", b"\x02\x00\x00\x00") + b"\x00" + b"\x00" * n))
    return out[:40]


def pset_targeted(rng, b):
    """count and length fields of a version-0 PSET whose global Elements transaction is walked by PSETView without
    being parsed (GlobalLTransactionView skips inputs and outputs by seeking): input / output counts, issuance flags
    and proof lengths set to attacker-chosen values with little or nothing behind them"""
    out = []

    def pset(tx, rest=b"\x00"):
        return b"pset\xff" + gen.kv(b"\x00", tx) + rest

    txin = b"\x11" * 32 + b"\x01\x00\x00\x00" + b"\x00" + b"\xfd\xff\xff\xff"
    txin_iss = b"\x11" * 32 + b"\x01\x00\x00\x80" + b"\x00" + b"\xfd\xff\xff\xff" + b"\x22" * 64 + b"\x01" + b"\x00" * 8 + b"\x00"
    txout = b"\x01" + b"\x33" * 32 + b"\x01" + (1000).to_bytes(8, "big") + b"\x00" + b"\x01\x51"
    head = b"\x02\x00\x00\x00\x00"
    for n in BIGN:
        out.append(("pset-count", pset(head + gen.cs(n) + b"\x00" * rng.choice([0, 10, 41]))))
        out.append(("pset-count", pset(head + gen.cs(1) + txin + gen.cs(n) + txout[:rng.choice([0, 5, len(txout)])] + b"\x00" * 4)))
        out.append(("pset-count", pset(head + gen.cs(2) + txin_iss + txin + gen.cs(n))))
        out.append(("pset-count", pset(head + gen.cs(n) + txin_iss)))
    # a well-formed two-scope version-0 PSET whose output carries a range / surjection proof with a hostile length
    good = head + gen.cs(1) + txin + gen.cs(1) + txout + b"\x00" * 4
    for key in (b"\xfc\x04pset\x04", b"\xfc\x04pset\x05", b"\xfc\x08elements\x04", b"\xfc\x08elements\x05"):
        for n in rng.sample(BIGN, 4):
            out.append(("pset-prooflen", pset(good, b"\x00" + b"\x00" + gen.cs(len(key)) + key + gen.cs(n) + b"\x55" * rng.choice([0, 40]))))
    out.append(("pset-valid-v0", pset(good, b"\x00\x00\x00")))
    # count position inside the global transaction of the seed itself (version, flag byte, then the input count)
    try:
        scopes = gen_psbt.split_scopes(b"psbt" + b[4:])
        for pi, (k, v) in enumerate(scopes[0]):
            if k == b"\x00" and len(v) > 6:
                for n in rng.sample(BIGN, 4):
                    sc2 = [list(x) for x in scopes]
                    sc2[0][pi] = (k, v[:5] + gen.cs(n) + v[6:])
                    out.append(("pset-count", b"pset\xff" + b"".join(b"".join(gen.kv(a, c) for a, c in x) + b"\x00" for x in sc2)))
    except Exception:
        pass
    rng.shuffle(out)
    return out


def ltx_targeted(rng):
    """length prefixes of the witness section of an Elements transaction (issuance range proofs, script / peg-in
    witness items, surjection and range proofs of the outputs) set to attacker-chosen values with little behind them;
    also as the previous transaction of a PSET input"""
    out = []
    txin = b"\x11" * 32 + b"\x01\x00\x00\x00" + b"\x00" + b"\xfd\xff\xff\xff"
    txout = b"\x01" + b"\x33" * 32 + b"\x01" + (1000).to_bytes(8, "big") + b"\x00" + b"\x01\x51"
    body = b"\x02\x00\x00\x00\x01" + gen.cs(1) + txin + gen.cs(1) + txout + b"\x00" * 4
    for n in BIGN:
        tail = b"\x44" * rng.choice([0, 3, 70])
        for pre in (b"", b"\x00", b"\x00\x00", b"\x00\x00\x01", b"\x00\x00\x00\x01", b"\x00\x00\x00\x00", b"\x00\x00\x00\x00\x00"):
            # pre = the witness fields before the hostile one: proofs (length), witnesses (item count, item length)
            out.append(("ltx-prooflen", body + pre + gen.cs(n) + tail))
    rng.shuffle(out)
    return out


def text_mutants(rng, s, n):
    out = []
    opens = ["wsh(", "sh(", "tr(", "and_v(", "or_d(", "thresh(1,", "v:", "a:s:c:", "multi(1,", "[", "{", "<", "pkh(", "andor("]
    for _ in range(n):
        r = rng.random()
        L = max(len(s), 1)
        if r < 0.25:
            k = rng.choice([10, 100, 900, 5000, 20000])
            o = rng.choice(opens)
            out.append(("nesting", (o * k + s + ")" * (k if rng.random() < 0.5 else 0))[:65536]))
        elif r < 0.40:
            p = rng.randrange(L)
            out.append(("repeat-sep", (s[:p] + rng.choice([",", "/", " ", "1", "*", "h", "#", ")", "(", "\n", "q"]) * rng.choice([10, 1000, 60000]) + s[p:])[:65536]))
        elif r < 0.55:
            p = rng.randrange(L)
            out.append(("digits", s[:p] + rng.choice(["9" * 30, "9" * 5000, "-1", "4294967296", "0" * 3000, "1e9"]) + s[p:]))
        elif r < 0.70:
            out.append(("truncate", s[:rng.randrange(L)]))
        elif r < 0.85:
            c = list(s)
            for _ in range(rng.randrange(1, 5)):
                c[rng.randrange(len(c))] = rng.choice("()[]{}<>,/#*'hH01qpzlbc \té中") if c else ""
            out.append(("chars", "".join(c)))
        else:
            k = rng.choice([0, 1, 50, 4000, 65536])
            out.append(("random", "".join(rng.choice("abcdefghijklmnopqrstuvwxyz0123456789()[],/*#' ") for _ in range(k))))
    return [(k, t.encode("utf-8", "replace")) for k, t in out]


def seeds(rng):
    """valid inputs per entry point: generated, plus literals harvested from the repository's tests"""
    from embit.transaction import Transaction
    s = {}
    txs = [gen.gen_tx(rng, big=(i % 7 == 0)) for i in range(12)]
    s["tx.parse"] = [t.serialize() for t in txs]
    s["tx.read_vout"] = s["tx.parse"]
    s["txin.parse"] = [i.serialize() for t in txs[:4] for i in t.vin[:2]]
    s["txout.parse"] = [o.serialize() for t in txs[:4] for o in t.vout[:2]] or [b"\x00" * 9]
    s["script.parse"] = [gen.cs(len(x)) + x for x in (gen.gen_script(rng, big=True) for _ in range(6))]
    s["witness.parse"] = [i.witness.serialize() for t in txs for i in t.vin[:1]]
    s["compact.from_bytes"] = [gen.cs(v) for v in (0, 252, 253, 65535, 65536, 2**32, 2**64 - 1)]
    ps = [gen_psbt.gen_psbt(rng, big=(i % 9 == 0)) for i in range(14)]
    s["psbt.parse"] = [g["bytes"] for g in ps]
    s["psbt.parse.c1"] = s["psbt.parse.c2"] = s["psbtview"] = s["psbt.parse"]
    s["psbt.read_from.noseek"] = s["psbt.read_from.file"] = s["psbt.parse"]
    s["tx.read_from.noseek"] = s["tx.read_from.file"] = s["tx.parse"]
    s["script.read_from.file"] = s["script.parse"]
    s["witness.read_from.file"] = s["witness.parse"]
    scopes = [gen_psbt.split_scopes(g["bytes"]) for g in ps[:6]]
    s["psbt.in.parse"] = [b"".join(gen.kv(k, v) for k, v in sc[1]) + b"\x00" for sc in scopes if len(sc) > 1]
    s["psbt.out.parse"] = [b"".join(gen.kv(k, v) for k, v in sc[-1]) + b"\x00" for sc in scopes]
    s["psbt.deriv.parse"] = [gen_psbt.gen_deriv(rng) for _ in range(4)]
    keys = gen_psbt.key_pool()
    s["pubkey.parse"] = [keys[0][0], keys[1][1]]
    s["hdkey.parse"] = [gen_psbt.gen_xpub(rng) for _ in range(3)]
    s["sig.parse"] = [bytes.fromhex("3044022070b2245123e6bf474d60c5b50c043d4c691a5d2435f09a34a7662a9dc251790a022001329ca9dacf280bdf30740ec0390422422c81cb45839457aeb76fc12edd95b3")]
    s["schnorrsig.parse"] = [gen.rbytes(rng, 64)]
    s["psbt.from_string"] = [g["bytes"].hex().encode() for g in ps[:5]] + [__import__("base64").b64encode(g["bytes"]) for g in ps[:5]]
    # harvested literals
    lits = set()
    tdir = os.path.join(REPO, "tests", "tests")
    for fn in sorted(os.listdir(tdir)):
        if fn.endswith(".py"):
            src = open(os.path.join(tdir, fn), errors="replace").read()
            for m in re.finditer(r"[\"']([^\"'\n]{12,200000})[\"']", src):
                lits.add(m.group(1))
    lits = sorted(lits)
    rng.shuffle(lits)
    def pick(pred, n=12):
        return [x.encode() for x in lits if pred(x)][:n]
    s["descriptor"] = pick(lambda x: re.match(r"^(wsh|sh|wpkh|pkh|tr|pk)\(", x) is not None, 20) or [b"wpkh(02" + b"11" * 32 + b")"]
    s["desc.key"] = pick(lambda x: re.match(r"^(\[[0-9a-fA-F]{8}|[xt]pub|[xt]prv)", x) is not None, 10) or [b"02" + b"11" * 32]
    s["hdkey.from_string"] = pick(lambda x: re.match(r"^[xtyzYZuvUV](pub|prv)[1-9A-HJ-NP-Za-km-z]{80,}$", x) is not None, 6)
    s["wif"] = pick(lambda x: re.match(r"^[5KLc9][1-9A-HJ-NP-Za-km-z]{50,51}$", x) is not None, 4) or [b"KwDiBf89QgGbjEhKnhXJuH7LrciVrZi3qYjgd9M7rFU73sVHnoWn"]
    s["parse_path"] = [b"m/44h/0h/0h/0/1", b"m/84'/1'/0'", b"0/1/2/3/*"]
    addrs = pick(lambda x: re.match(r"^(bc1|tb1|bcrt1|[13mn2])[0-9a-zA-Z]{25,90}$", x) is not None, 12)
    s["address"] = addrs or [b"bc1qw508d6qejxtdg4y5r3zarvary0c5xw7kv8f3t4"]
    s["bech32.decode"] = s["address"]
    s["base58.decode"] = s["base58.decode_check"] = s["hdkey.from_string"] + s["wif"]
    s["laddress"] = pick(lambda x: re.match(r"^(lq1|ex1|el1|ert1|[A-Za-z0-9]{70,110}$)", x) is not None, 6) or [b"lq1qq"]
    s["bip39.to_bytes"] = pick(lambda x: len(x.split(" ")) in (12, 15, 18, 21, 24) and re.match(r"^[a-z ]+$", x) is not None, 8) or \
        [b"abandon abandon abandon abandon abandon abandon abandon abandon abandon abandon abandon about"]
    s["bip39.is_valid"] = s["bip39.to_bytes"]
    s["slip39.share"] = pick(lambda x: len(x.split(" ")) in (20, 33) and re.match(r"^[a-z ]+$", x) is not None, 8) or [b"a b c"]
    big = pick(lambda x: re.match(r"^[A-Za-z0-9+/=]{300,}$", x) is not None, 30)
    import base64
    s["pset.parse"] = []
    s["ltx.parse"] = []
    for x in big:
        try:
            raw = base64.b64decode(x)
        except Exception:
            continue
        if raw[:5] == b"pset\xff":
            s["pset.parse"].append(raw)
    for x in pick(lambda x: re.match(r"^[0-9a-f]{200,}$", x) is not None, 40):
        raw = bytes.fromhex(x.decode()) if len(x) % 2 == 0 else b""
        if raw[:5] == b"pset\xff":
            s["pset.parse"].append(raw)
        elif raw[4:5] in (b"\x00", b"\x01") and len(raw) > 100:
            s["ltx.parse"].append(raw)
    # Liquid transactions: the global tx of version-0 PSETs and the previous txs embedded in the PSETs
    for raw in list(s["pset.parse"]):
        try:
            for sc in gen_psbt.split_scopes(b"psbt" + raw[4:]):
                for k, v in sc:
                    if k == b"\x00" and len(v) > 60:
                        s["ltx.parse"].append(v)
        except Exception:
            pass
    s["pset.parse"] = s["pset.parse"][:6] or [b"pset\xff\x00"]
    s["pset.parse.c1"] = s["psetview"] = s["pset.read_from.noseek"] = s["pset.read_from.file"] = s["pset.parse"]
    s["ltx.parse"] = s["ltx.parse"][:6] or [b"\x02\x00\x00\x00\x00\x00\x00\x00\x00\x00\x00"]
    s["ltx.read_from.noseek"] = s["ltx.read_from.file"] = s["ltx.parse"]
    return s


TEXT = {"psbt.from_string", "wif", "hdkey.from_string", "parse_path", "address", "laddress", "bech32.decode", "base58.decode",
        "base58.decode_check", "descriptor", "desc.key", "bip39.to_bytes", "bip39.is_valid", "slip39.share"}


def judge(c, ep, kind, data, res, valid):
    n = len(data)
    c.count((ep, data), nontrivial=(kind != "valid"))
    c.tally("%s:%s" % (ep, res["o"].split(":")[0]))
    c.tally("kind:" + kind)
    rec = {"op": ep, "kind": kind, "size": n, "outcome": res["o"], "seconds": res["t"], "peak": res["m"],
           "data": data.hex()[:40000] if n <= 20000 else None, "data_head": data[:64].hex(),
           "time_budget": round(T_BASE + T_PER_BYTE * n, 3), "mem_budget": M_BASE + M_PER_BYTE * n}
    if res["o"] not in ("value", "exception"):
        c.fail("parser %s did not end with a value or an ordinary exception: %s (%s, %d bytes)" % (ep, res["o"], kind, n), rec)
    elif res["t"] > T_BASE + T_PER_BYTE * n:
        c.fail("parser %s took %.2fs on %d bytes (%s)" % (ep, res["t"], n, kind), rec)
    elif res["m"] > M_BASE + M_PER_BYTE * n:
        c.fail("parser %s allocated %d bytes for a %d-byte input (%s)" % (ep, res["m"], n, kind), rec)
    c.extra.setdefault("worst", {})
    w = c.extra["worst"].get(ep, {"t_ratio": 0, "m_ratio": 0})
    w["t_ratio"] = round(max(w["t_ratio"], res["t"] / (T_BASE + T_PER_BYTE * n)), 3)
    w["m_ratio"] = round(max(w["m_ratio"], res["m"] / (M_BASE + M_PER_BYTE * n)), 3)
    c.extra["worst"][ep] = w


def explore(c, per_seed):
    w = Worker()
    try:
        sd = seeds(c.rng)
        exhaustive = {}
        missing = [e for e in w.eps if e not in sd]
        if missing:
            c.broken.append(("entry-points-without-seeds", ",".join(missing)))
        for ep in sorted(sd):
            if ep not in w.eps:
                continue
            text = ep in TEXT
            for s in sd[ep]:
                judge(c, ep, "valid", s, w.call(ep, s, text), True)
                muts = text_mutants(c.rng, s.decode("utf-8", "replace"), per_seed) if text else byte_mutants(c.rng, s, per_seed)
                if text and ep in ("descriptor", "desc.key", "parse_path", "address", "bip39.to_bytes", "slip39.share", "hdkey.from_string", "wif") \
                        and len(s) <= 700 and exhaustive.get(ep, 0) < (3 if per_seed <= 8 else 12):
                    # every prefix of a few valid texts (a parser must also end when the text stops anywhere)
                    exhaustive[ep] = exhaustive.get(ep, 0) + 1
                    muts = muts + [("truncate-every", s[:k]) for k in range(len(s))]
                if ep in ("psbt.parse", "psbt.parse.c1", "psbtview", "psbt.read_from.noseek", "psbt.read_from.file"):
                    muts = muts + psbt_targeted(c.rng, s)[: per_seed * 2]
                if ep in ("ltx.parse", "ltx.read_from.noseek", "ltx.read_from.file"):
                    done = exhaustive.get("ltx:" + ep, 0)
                    exhaustive["ltx:" + ep] = done + 1
                    if done == 0:
                        muts = muts + ltx_targeted(c.rng)
                if ep in ("pset.parse", "pset.parse.c1", "psetview", "pset.read_from.noseek", "pset.read_from.file"):
                    done = exhaustive.get("pset:" + ep, 0)
                    exhaustive["pset:" + ep] = done + 1
                    pt = pset_targeted(c.rng, s)
                    # the synthetic headers do not depend on the seed: all of them once per entry point, a sample afterwards
                    muts = muts + (pt if done == 0 else pt[: per_seed])
                for kind, m in muts:
                    judge(c, ep, kind, m, w.call(ep, m, text), False)
        c.sample({"entry_points": len(sd), "example": {"ep": "psbt.parse", "mutant": "count field -> ff ff ff ff ff ff ff ff ff"}})
    finally:
        w.close()


def corpus(c):
    p = os.path.join(VERIF, "corpus", "C17.json")
    if not os.path.exists(p):
        return
    w = Worker()
    try:
        for e in json.load(open(p)):
            d = bytes.fromhex(e["data"])
            judge(c, e["ep"], "corpus:" + e.get("kind", ""), d, w.call(e["ep"], d, e["ep"] in TEXT), False)
    finally:
        w.close()


# ---------------------------------------------------------------------------------------------------------------
# text parsers: the cost companions of Model/Cost.lean against the real code

def desc_literals():
    lits = set()
    tdir = os.path.join(REPO, "tests", "tests")
    for fn in sorted(os.listdir(tdir)):
        if fn.endswith(".py"):
            src = open(os.path.join(tdir, fn), errors="replace").read()
            for m in re.finditer(r"[\"']([^\"'\n]{12,3000})[\"']", src):
                x = m.group(1)
                if re.match(r"^(wsh|sh|wpkh|pkh|tr)\(", x) and x.isascii() and not re.search(r"\s", x):
                    lits.add(x)
    return sorted(lits)


def desc_generated(rng, n):
    """valid descriptors over fresh keys: every operator family of the parser"""
    from embit import bip32, ec
    def pub():
        while True:
            try:
                return ec.PrivateKey(gen.rbytes(rng, 32)).get_public_key().sec().hex()
            except Exception:
                pass
    def xpub():
        k = bip32.HDKey.from_seed(gen.rbytes(rng, 32))
        path = rng.choice(["m/84h/0h/0h", "m/48h/1h/0h/2h", "m/0"])
        o = "[%s/%s]" % (k.my_fingerprint.hex(), path[2:]) if rng.random() < 0.6 else ""
        return o + k.derive(path).to_public().to_base58() + rng.choice(["/0/*", "/<0;1>/*", "/{0,1}/*", "", "/1/2/*"])
    def key():
        return pub() if rng.random() < 0.5 else xpub()
    def xonly():
        return pub()[2:]
    h32 = lambda: gen.rbytes(rng, 32).hex()
    h20 = lambda: gen.rbytes(rng, 20).hex()
    T = [lambda: "wpkh(%s)" % key(), lambda: "pkh(%s)" % key(), lambda: "sh(wpkh(%s))" % key(),
         lambda: "wsh(multi(2,%s,%s,%s))" % (key(), key(), key()), lambda: "sh(sortedmulti(1,%s,%s))" % (key(), key()),
         lambda: "sh(wsh(sortedmulti(2,%s,%s)))" % (xpub(), xpub()),
         lambda: "wsh(and_v(v:pk(%s),after(%d)))" % (key(), rng.randrange(1, 500000)),
         lambda: "wsh(or_d(pk(%s),and_v(v:pkh(%s),older(%d))))" % (key(), key(), rng.randrange(1, 65535)),
         lambda: "wsh(thresh(2,pk(%s),s:pk(%s),s:pk(%s),sln:older(%d)))" % (key(), key(), key(), rng.randrange(1, 1000)),
         lambda: "wsh(andor(pk(%s),older(%d),pk(%s)))" % (key(), rng.randrange(1, 1000), key()),
         lambda: "wsh(and_v(v:pk(%s),sha256(%s)))" % (key(), h32()), lambda: "wsh(and_v(v:pk(%s),hash160(%s)))" % (key(), h20()),
         lambda: "wsh(or_i(and_v(v:pkh(%s),older(%d)),pk(%s)))" % (key(), rng.randrange(1, 1000), key()),
         lambda: "tr(%s)" % xonly(), lambda: "tr(%s,pk(%s))" % (xonly(), xonly()),
         lambda: "tr(%s,{pk(%s),pk(%s)})" % (xonly(), xonly(), xonly()),
         lambda: "tr(%s,{{pk(%s),multi_a(2,%s,%s)},and_v(v:pk(%s),older(%d))})" % (xonly(), xonly(), xonly(), xonly(), xonly(), rng.randrange(1, 1000)),
         lambda: "wsh(c:pk_k(%s))" % key(), lambda: "wsh(and_b(pk(%s),a:and_b(pk(%s),a:pk(%s))))" % (key(), key(), key())]
    return [rng.choice(T)() + rng.choice(["", "", "#00000000"]) for _ in range(n)]


def desc_cases(rng, n):
    lits = desc_literals() + desc_generated(rng, max(12, n // 8))
    out = list(lits)
    opens = ["wsh(", "sh(", "and_v(", "or_d(", "thresh(1,", "v:", "a:s:c:", "multi(1,", "{", "pkh(", "andor(", "tr(", "older("]
    fixed = ["", "wsh(", "wsh(multi(1,", "tr(", "sh(", "sh(wpkh", "wsh(thresh(", "wsh(after(", "wsh(after(1", "tr(A,", "tr(A,{",
             "tr(A,{{{{", "wsh(and_v(" * 60, "wsh(" + "thresh(1," * 40, "wsh(multi(1" + ",A" * 200, "wsh(pk(" + "9" * 300, "pkh([",
             "pkh([00000000/1/2h]", "wpkh(xpub/<0;1>/*)", "wpkh(xpub/{0,1}/*", "wsh(sha256(00))", "wsh(:pk(A))", "wsh(a::pk(A))"]
    out += fixed
    while len(out) < n and lits:
        d = rng.choice(lits)
        r = rng.random()
        if r < 0.35:
            out.append(d[:rng.randrange(len(d))])
        elif r < 0.6:
            p = rng.randrange(len(d))
            out.append(d[:p] + rng.choice("(),{}/<>[]*h:1a#;'") + d[p + 1:])
        elif r < 0.8:
            p = rng.randrange(len(d))
            out.append(d[:p] + rng.choice([",", ")", "(", "{", "}", "/", "1"]) * rng.randrange(1, 5) + d[p:])
        elif r < 0.9:
            k = rng.choice([1, 5, 40, 150])
            out.append((rng.choice(opens) * k + d + ")" * (k if rng.random() < 0.5 else 0))[:3000])
        else:
            out.append("".join(rng.choice("abcdhkprstuvw_0123456789()[],/*#:{}<>;") for _ in range(rng.choice([1, 8, 60]))))
    return out[:max(n, len(fixed) + len(lits))]


class _Counting:
    """embit's descriptor parser with a counting stream and wrapped recursive readers"""

    def __enter__(self):
        import io
        from embit.descriptor import miniscript as M, taptree as T
        self.st = st = {"calls": 0, "depth": 0, "max": 0}

        class CS(io.BytesIO):
            n = 0

            def read(self, *a):
                self.n += 1
                return super().read(*a)

            def seek(self, *a):
                self.n += 1
                return super().seek(*a)
        self.CS = CS
        self.saved = []
        for cls in (M.Miniscript, T.TapTree):
            orig = cls.__dict__["read_from"]
            self.saved.append((cls, orig))
            f = orig.__func__

            def rf(k, s, *a, _f=f, **kw):
                st["calls"] += 1
                st["depth"] += 1
                st["max"] = max(st["max"], st["depth"])
                try:
                    return _f(k, s, *a, **kw)
                finally:
                    st["depth"] -= 1
            cls.read_from = classmethod(rf)
        return self

    def __exit__(self, *a):
        for cls, orig in self.saved:
            cls.read_from = orig

    def count(self, text):
        """(stream calls, read_from calls, depth, accepted) of Descriptor.from_string(text); None: RecursionError"""
        from embit.descriptor import Descriptor
        s = self.CS(text.encode())
        self.st.update(calls=0, depth=0, max=0)
        ok = True
        try:
            Descriptor.read_from(s)
            left = s.read()
            if len(left) > 0 and not left.startswith(b"#"):
                ok = False
        except RecursionError:
            return None
        except Exception:
            ok = False
        return s.n, self.st["calls"], self.st["max"], ok


def text_cost(c, n):
    import signal
    from embit import ec, base58
    # the hypothesis of the termination theorems on the real code: the key decoder refuses the empty text
    for what, f in (("PrivateKey.from_wif('')", lambda: ec.PrivateKey.from_wif("")),):
        try:
            f()
            c.fail("%s returned a value: the argument loop of multi(...) relies on it raising" % what, {"op": "c17.nokey"})
        except Exception:
            pass
    def on_alarm(signum, frame):
        raise TimeoutError()
    old = signal.signal(signal.SIGALRM, on_alarm)
    try:
        with _Counting() as k:
            for text in desc_cases(c.rng, n):
                signal.setitimer(signal.ITIMER_REAL, 20)
                try:
                    r = k.count(text)
                except TimeoutError:
                    c.fail("Descriptor.from_string did not end within 20 s on %d characters" % len(text), {"op": "c17.desc", "text": text})
                    continue
                finally:
                    signal.setitimer(signal.ITIMER_REAL, 0)
                if r is None:
                    c.tally("cost.desc:recursion-limit")
                    continue
                L = len(text)
                c.count(("c17.desc", text), nontrivial=True)
                c.tally("cost.desc:" + ("accepted" if r[3] else "rejected"))
                rec = {"op": "c17.desc", "text": text, "size": L, "stream_calls": r[0], "read_from_calls": r[1], "depth": r[2]}
                # the proved bounds, on the counts of the real code
                if r[0] + r[1] > 8 * L + 22:
                    c.fail("descriptor parser: %d stream calls + %d read_from calls on %d characters (bound 8n+22)" % (r[0], r[1], L), rec)
                if r[2] > L + 1:
                    c.fail("descriptor parser: recursion depth %d on %d characters" % (r[2], L), rec)
                # What is REQUIRED of embit is the bound above (exceeding it is the violation) and the same verdict as
                # the model. Whether embit's counts EQUAL the numbers of the cost companions is only an observation
                # (tallied, never a failure): a refactoring of the parser that keeps it inside the bound must not turn
                # this check red (audit2 A-3 / I-17X.2). CPython's BytesIO clamps a relative seek before the start of
                # the stream to 0 where the model (C12) lets it raise: the texts "tr(" and "sh(" (rejected by both).
                if text in ("tr(", "sh("):
                    continue

                def canon(o, r=r, L=L):
                    t = o.split(" ")
                    if len(t) != 5 or t[0] != "ok":
                        return o
                    try:
                        ms, mr, md = int(t[1]), int(t[2]), int(t[3])
                    except ValueError:
                        return o
                    # the companions themselves must respect the theorems they are the subject of
                    if ms + mr > 8 * L + 22 or md > L + 1:
                        return "model-exceeds-proved-bound " + o
                    c.tally("cost.desc:counts-%s-model" % ("equal" if (ms, mr, md) == r[:3] else "differ-from"))
                    return "ok * * * " + t[4]
                c.expect("c17.desc %s" % hx(text.encode()), "ok * * * %d" % int(r[3]), rec, proven=False, canon=canon)
    finally:
        signal.signal(signal.SIGALRM, old)
    # base58: result size (the step count is not observable); Model.Base58.decode is C11's, proved equal to the spec
    b58 = "123456789ABCDEFGHJKLMNPQRSTUVWXYZabcdefghijkmnopqrstuvwxyz"
    for i in range(max(20, n // 10)):
        k = c.rng.choice([0, 1, 2, 5, 30, 52, 111, 300])
        t = "".join(c.rng.choice(b58 if c.rng.random() < 0.95 else "0OIl+") for _ in range(k))
        if c.rng.random() < 0.3:
            t = "1" * c.rng.randrange(1, 6) + t
        try:
            out = str(len(base58.decode(t)))
            if int(out) > len(t):
                c.fail("base58.decode returned %s bytes for %d characters" % (out, len(t)), {"op": "c17.b58", "text": t})
        except Exception:
            out = "none"
        c.count(("c17.b58", t), nontrivial=True)
        c.expect("c17.b58 %s" % hx(t.encode()), "ok * %s" % out, {"op": "c17.b58", "text": t}, proven=False,
                 canon=lambda o: " ".join(["ok", "*"] + o.split(" ")[2:]) if o.startswith("ok ") else o)


def bin_cost(c, n):
    """Props/C17Y: the instrumented byte parsers (value part proved equal to Model.Tx.parse / Psbt.parse). On the real
    code a counting BytesIO counts the stream calls of Transaction.read_from / PSBT.read_from. REQUIRED (violation
    otherwise): embit's count stays inside the PROVED bound (5|b|+13 / 7|b|+12). Correspondence: same verdict as the
    instrumented model. Observation only (tallied): embit's count <= the model's step count for the same bytes."""
    import io
    from embit.transaction import Transaction
    from embit.psbt import PSBT

    class CS(io.BytesIO):
        n = 0

        def read(self, *a):
            self.n += 1
            return super().read(*a)

        def seek(self, *a):
            self.n += 1
            return super().seek(*a)

    def run_one(kind, b, reader, line, bound):
        s = CS(b)
        ok = True
        try:
            reader(s)
            if len(s.read()) > 0:
                ok = False
        except RecursionError:
            c.tally("cost.%s:recursion-limit" % kind)
            return
        except Exception:
            ok = False
        L = len(b)
        rec = {"op": line.split(" ")[0], "data": b.hex(), "size": L, "stream_calls": s.n}
        c.count((kind, b), nontrivial=True)
        c.tally("cost.%s:%s" % (kind, "accepted" if ok else "rejected"))
        if s.n > bound(L):
            c.fail("%s: %d stream calls on %d bytes (proved bound of the model: %d)" % (kind, s.n, L, bound(L)), rec)

        def canon(o, calls=s.n, L=L):
            t = o.split(" ")
            if len(t) != 3 or t[0] != "ok":
                return o
            try:
                ms = int(t[1])
            except ValueError:
                return o
            if ms > bound(L):
                return "model-exceeds-proved-bound " + o
            c.tally("cost.%s:embit-calls-%s-model-steps" % (kind, "le" if calls <= ms else "gt"))
            return "ok * " + t[2]
        c.expect(line, "ok * %d" % int(ok), rec, proven=False, canon=canon)

    k = max(6, n // 40)
    for i in range(k):
        tx = gen.gen_tx(c.rng, big=(i % 9 == 0))
        cases = [("valid", gen.wire_of(tx))] + list(gen.mutations(c.rng, tx, budget=12))
        for kind, b in cases:
            if len(b) > 20000:
                continue
            run_one("tx", b, Transaction.read_from, "c17.txsteps %s" % hx(b), lambda L: 5 * L + 13)
    for i in range(max(4, k // 2)):
        g = gen_psbt.gen_psbt(c.rng)
        cases = [("valid", g["bytes"])] + [(kd, bb) for (kd, bb, _) in list(gen_psbt.corruptions(c.rng, g))[:10]]
        for kind, b in cases:
            if len(b) > 20000:
                continue
            for comp in (0, 1, 2):
                run_one("psbt", b, lambda s, comp=comp: PSBT.read_from(s, compress=comp),
                        "c17.psbtsteps %d %s" % (comp, hx(b)), lambda L: 7 * L + 12)


def view_cost(c, n):
    """Props/C17V: the seeking loops of the streaming views (Model/ViewCost.lean). On the real code a counting BytesIO
    counts the stream calls of GlobalLTransactionView.num_vout_offset, PSETView._hash_to and PSBTView._skip_scope on
    valid PSBT / PSET bytes and on the hostile psbt_targeted / pset_targeted mutants. REQUIRED (violation otherwise):
    embit's count stays inside the PROVED bound (9(|b|/41+1)+4, 2((|b|-pos)/32+1), 7((|b|-pos)/2+1); round 7:
    GlobalLTransactionView.vin(i) up to its input parser 9·min(i,|b|/41+1)+4, PSBTView.seek_to_scope(n)
    min(8(|b|-first+1)+1, (7(|b|-first)+9·min(n,|b|-first+1)+9)/2)). Correspondence:
    same value / same exception-or-not as the instrumented model (whose own counts are checked against the bound)."""
    import io, hashlib
    from embit.psbtview import PSBTView
    from embit.liquid.psetview import PSETView, GlobalLTransactionView

    class CS(io.BytesIO):
        n = 0

        def read(self, *a):
            self.n += 1
            return super().read(*a)

        def seek(self, *a):
            self.n += 1
            return super().seek(*a)

    def run_one(kind, b, call, line, bound, scopes_bound=None):
        s = CS(b)
        try:
            val = call(s)
        except RecursionError:
            return
        except Exception:
            val = "none"
        L = len(b)
        rec = {"op": line.split(" ")[0], "line": line[:200], "size": L, "stream_calls": s.n}
        c.count((kind, line), nontrivial=True)
        c.tally("cost.%s:%s" % (kind, "raised" if val == "none" else "returned"))
        if s.n > bound:
            c.fail("%s: %d stream calls on %d bytes (proved bound of the model: %d)" % (kind, s.n, L, bound), rec)

        def canon(o, calls=s.n):
            t = o.split(" ")
            if len(t) not in (4, 5) or t[0] != "ok":
                return o
            try:
                ms = int(t[2])
            except ValueError:
                return o
            if ms > bound:
                return "model-exceeds-proved-bound " + o
            c.tally("cost.%s:embit-calls-%s-model-steps" % (kind, "le" if calls <= ms else "gt"))
            if len(t) == 5:
                # c17.seekscope: calls of _skip_scope — proved <= min(n, |b| - first + 1)
                if scopes_bound is not None and int(t[4]) > scopes_bound:
                    return "model-exceeds-proved-bound " + o
            return "ok * * " + t[3]
        c.expect(line, "ok * * %s" % val, rec, proven=False, canon=canon)

    def nvo(off):
        return lambda s: str(GlobalLTransactionView(s, off).num_vout_offset)

    def hashto(l, pos):
        def f(s):
            v = PSETView.__new__(PSETView)
            v.stream = s
            io.BytesIO.seek(s, pos)
            try:
                v._hash_to(hashlib.sha256(), l)
            except Exception:
                return "0"
            return "1"
        return f

    def skipscope(pos):
        def f(s):
            v = PSBTView.__new__(PSBTView)
            v.stream = s
            io.BytesIO.seek(s, pos)
            return str(pos + v._skip_scope())
        return f

    def lvin(off, i):
        # GlobalLTransactionView.vin(i) up to (not including) LTransactionInput.read_from: the parser is replaced by a
        # stub that reports where it would start (tell() is not counted)
        from unittest import mock
        import embit.liquid.psetview as pv

        class Stub:
            @staticmethod
            def read_from(stream, *a, **k):
                return stream.tell()

        def f(s):
            with mock.patch.object(pv, "LTransactionInput", Stub):
                return str(GlobalLTransactionView(s, off).vin(i))
        return f

    def seekscope(first, n):
        def f(s):
            v = PSBTView.__new__(PSBTView)
            v.stream = s
            v.first_scope = first
            v.num_inputs = n          # the range test of seek_to_scope passes: the loop is what is measured
            v.num_outputs = 0
            r = v.seek_to_scope(n)
            if r != s.tell():
                return "offset-differs-from-position %d %d" % (r, s.tell())
            return str(r)
        return f

    def tx_off(b):
        # magic, key 01 00, compact length of the global transaction
        if len(b) > 7 and b[5:7] == b"\x01\x00":
            return 7 + {0xfd: 3, 0xfe: 5, 0xff: 9}.get(b[7], 1)
        return 5

    k = max(3, n // 130)
    cases = []
    for i in range(k):
        g = gen_psbt.gen_psbt(c.rng)
        b = g["bytes"]
        cases.append(("valid", b))
        cases += [(kd, bb) for (kd, bb) in psbt_targeted(c.rng, b)[:3]]
        pb = b"pset" + b[4:]
        cases.append(("valid-pset", pb))
        cases += [(kd, bb) for (kd, bb) in pset_targeted(c.rng, pb)[:8]]
    for kd, b in cases:
        if len(b) > 20000:
            continue
        L = len(b)
        for off in sorted({tx_off(b), c.rng.randrange(0, L + 3)}):
            run_one("view.lnvo", b, nvo(off), "c17.lnvo %d %s" % (off, hx(b)), 9 * (L // 41 + 1) + 4)
        for pos in sorted({5, c.rng.randrange(0, L + 3)}):
            run_one("view.skipscope", b, skipscope(pos), "c17.skipscope %d %s" % (pos, hx(b)), 7 * (max(0, L - pos) // 2 + 1))
        off = tx_off(b)
        for i in sorted({0, c.rng.randrange(0, 4), c.rng.choice(BIGN)}):
            run_one("view.lvin", b, lvin(off, i), "c17.lvin %d %d %s" % (off, i, hx(b)), 9 * min(i, L // 41 + 1) + 4)
        for first in sorted({5, c.rng.randrange(0, L + 3)}):
            R = max(0, L - first)
            for nn in sorted({c.rng.randrange(0, 6), c.rng.choice(BIGN)}):
                run_one("view.seekscope", b, seekscope(first, nn), "c17.seekscope %d %d %s" % (first, nn, hx(b)),
                        min(8 * (R + 1) + 1, (7 * R + 9 * min(nn, R + 1) + 9) // 2), scopes_bound=min(nn, R + 1))
        pos = c.rng.randrange(0, L + 3)
        for l in (c.rng.choice([0, 31, 32, 33, 64, 65]), c.rng.randrange(0, 2 * L + 2), c.rng.choice(BIGN)):
            run_one("view.hashto", b, hashto(l, pos), "c17.hashto %d %d %s" % (l, pos, hx(b)), 2 * (max(0, L - pos) // 32 + 1))


def run(tier, seed):
    c = Check(PROP, MODS, tier, seed)
    c.rule = ("every public parse entry point (36: transactions, scripts, witnesses, PSBT/PSET in all modes, streaming views walked "
              "over all scopes, keys, signatures, extended keys, addresses, descriptors/miniscript, mnemonics, shares) x valid seeds "
              "(generated + literals harvested from the repo tests) x structure-aware mutants (count/length fields set to fc, fd.., "
              "2^16, 2^32-1, 2^64-1, non-canonical; truncation; repeated separators; repeated chunks up to 64 KiB; nesting up to "
              "20000 levels; huge digit strings; random data up to 64 KiB), run in a worker with a 3 GiB address-space limit and "
              "a per-call timer; budget: time <= %.2fs + %.0fus/byte, traced peak <= %d + %d/byte" % (T_BASE, T_PER_BYTE * 1e6, M_BASE, M_PER_BYTE))
    c.assumptions = ["CPython time and memory are observed, not proved", "quadratic big-integer work below 64 KiB stays inside the budget by design"]
    c.build_and_audit()
    corpus(c)
    explore(c, 8 if tier == "quick" else 120)
    text_cost(c, 400 if tier == "quick" else 4000)
    bin_cost(c, 400 if tier == "quick" else 4000)
    view_cost(c, 400 if tier == "quick" else 4000)
    return c.finish(search=lambda cc: explore(cc, 40))


def replay(path):
    r = json.load(open(path))
    print(json.dumps({k: (v if len(str(v)) < 600 else str(v)[:600]) for k, v in r.items()}, indent=1))
    t = r.get("text") or (r.get("info") or {}).get("text")
    if t is not None and str(r.get("op", "")).startswith("c17."):
        from core import run_driver
        if r["op"] == "c17.desc":
            with _Counting() as k:
                print("now (embit: stream calls, read_from calls, depth, accepted):", k.count(t))
        print("now (model):", run_driver(["%s %s" % (r["op"], hx(t.encode()))]))
        return 0
    if r.get("data"):
        w = Worker()
        print("now:", w.call(r["op"], bytes.fromhex(r["data"]), r["op"] in TEXT))
        w.close()
    return 0
