"""C11 — addresses and their base58 / bech32 codecs are exact inverses and reject errors.

Theorems: lean/EmbitModel/Props/C11.lean (+ C11Detect.lean for the substitution-detection tables, C11X.lean for the
completeness statements and the characterisation of the cross-variant neighbours).
Tie: every op is run on embit and on the Lean model (native driver); the Lean *spec* encoders
(`b58.spec_enc*`, `bech32.spec_enc`, `addr.spec`) are the oracle for "the address text equals the
Base58Check / BIP173 / BIP350 encoding"; the rejection half of the property is evaluated directly on embit
(a mutated string may yield a script only when it is, in its own right, the spec encoding of that script
for a network of embit's table — the BIP350 cross-variant neighbour of DESIGN Appendix D is of that kind)."""
import json
import os
import signal

from core import Check, hx, VERIF, run_driver
import facts
import gen

from embit import base58, bech32
from embit.networks import NETWORKS
from embit.script import Script, address_to_scriptpubkey

PROP = "C11"
MODS = ["EmbitModel.Props.C11", "EmbitModel.Props.C11Detect", "EmbitModel.Props.C11X"]

B58 = base58.B58_DIGITS
CHARSET = bech32.CHARSET
KINDS = ["p2pkh", "p2sh", "p2wpkh", "p2wsh", "p2tr"]


class Timeout(Exception):
    pass


def _alarm(*_):
    raise Timeout()


def guarded(f, *a):
    """call into embit with a wall-clock cap; returns (tag, value): ok / exc / timeout"""
    signal.signal(signal.SIGALRM, _alarm)
    signal.setitimer(signal.ITIMER_REAL, 5.0)
    try:
        return ("ok", f(*a))
    except Timeout:
        return ("timeout", None)
    except Exception as e:  # noqa
        return ("exc", e)
    finally:
        signal.setitimer(signal.ITIMER_REAL, 0)


def sx(s):
    """strings travel as hex of their UTF-8 bytes"""
    return hx(s.encode("utf8"))


def nats(l):
    return " ".join([str(len(l))] + [str(x) for x in l])


# ------------------------------------------------------------------ independent helpers (no embit code)
def std_script(kind, payload):
    if kind == "p2pkh":
        return b"\x76\xa9\x14" + payload + b"\x88\xac"
    if kind == "p2sh":
        return b"\xa9\x14" + payload + b"\x87"
    if kind == "p2wpkh":
        return b"\x00\x14" + payload
    if kind == "p2wsh":
        return b"\x00\x20" + payload
    return b"\x51\x20" + payload


def classify_script(data):
    """own template matcher: (kind, payload) or None"""
    if len(data) == 25 and data[:3] == b"\x76\xa9\x14" and data[23:] == b"\x88\xac":
        return ("p2pkh", data[3:23])
    if len(data) == 23 and data[:2] == b"\xa9\x14" and data[22:] == b"\x87":
        return ("p2sh", data[2:22])
    if len(data) == 22 and data[:2] == b"\x00\x14":
        return ("p2wpkh", data[2:])
    if len(data) == 34 and data[:2] == b"\x00\x20":
        return ("p2wsh", data[2:])
    if len(data) == 34 and data[:2] == b"\x51\x20":
        return ("p2tr", data[2:])
    return None


def ref_polymod(values):
    """BIP173 reference recurrence, written here only to *construct* hostile inputs (wrong-variant
    checksums, invalid programs with a valid checksum); never used to judge embit."""
    gen_ = [0x3B6A57B2, 0x26508E6D, 0x1EA119FA, 0x3D4233DD, 0x2A1462B3]
    chk = 1
    for v in values:
        b = chk >> 25
        chk = ((chk & 0x1FFFFFF) << 5) ^ v
        for i in range(5):
            if (b >> i) & 1:
                chk ^= gen_[i]
    return chk


def ref_expand(hrp):
    return [ord(c) >> 5 for c in hrp] + [0] + [ord(c) & 31 for c in hrp]


REF_CHARSET = "qpzry9x8gf2tvdw0s3jn54khce6mua7l"


def ref_bech32(hrp, data, const):
    pm = ref_polymod(ref_expand(hrp) + data + [0] * 6) ^ const
    cs = [(pm >> 5 * (5 - i)) & 31 for i in range(6)]
    return hrp + "1" + "".join(REF_CHARSET[d] for d in data + cs)


def ref_to5(b, pad_bits=None):
    """8->5 regrouping; pad_bits = list of extra bits to use as padding instead of zeros"""
    bits = []
    for x in b:
        bits += [(x >> (7 - i)) & 1 for i in range(8)]
    if pad_bits is None:
        pad_bits = [0] * ((5 - len(bits) % 5) % 5)
    bits += pad_bits
    assert len(bits) % 5 == 0
    return [int("".join(map(str, bits[i:i + 5])), 2) for i in range(0, len(bits), 5)]


def netparams():
    """network constants from the loaded module (never hard-coded)"""
    res = []
    for name, n in NETWORKS.items():
        res.append((name, bytes(n["p2pkh"]), bytes(n["p2sh"]), str(n["bech32"]), n))
    return res


# ------------------------------------------------------------------ embit wrappers
def i_b58enc(b):
    t, v = guarded(base58.encode, b)
    return "ok " + sx(v) if t == "ok" else ("none" if t == "exc" else t)


def i_b58dec(s):
    t, v = guarded(base58.decode, s)
    return "ok " + hx(v) if t == "ok" else ("none" if t == "exc" else t)


def i_b58enc_check(b):
    t, v = guarded(base58.encode_check, b)
    return "ok " + sx(v) if t == "ok" else ("none" if t == "exc" else t)


def i_b58dec_check(s):
    t, v = guarded(base58.decode_check, s)
    return "ok " + hx(v) if t == "ok" else ("none" if t == "exc" else t)


def i_bech32enc(hrp, ver, prog):
    t, v = guarded(bech32.encode, hrp, ver, prog)
    if t == "ok":
        return "none" if v is None else "ok " + sx(v)
    return "none" if t == "exc" else t


def i_bech32dec(hrp, s):
    t, v = guarded(bech32.decode, hrp, s)
    if t == "ok":
        if v[0] is None:
            return "none"
        return "ok %d %s" % (v[0], nats(list(v[1])))
    return "none" if t == "exc" else t


def i_rawdec(s):
    t, v = guarded(bech32.bech32_decode, s)
    if t == "ok":
        if v[0] is None:
            return "none"
        return "ok %d %s %s" % (v[0], sx(v[1]), nats(list(v[2])))
    return "none" if t == "exc" else t


def i_rawenc(enc, hrp, data):
    t, v = guarded(bech32.bech32_encode, enc, hrp, data)
    return "ok " + sx(v) if t == "ok" else ("none" if t == "exc" else t)


def i_convertbits(data, f, to, pad):
    t, v = guarded(bech32.convertbits, data, f, to, pad)
    if t == "ok":
        return "none" if v is None else "ok " + nats(v)
    return "none" if t == "exc" else t


def i_address(script, netdict):
    t, v = guarded(lambda: Script(script).address(netdict))
    if t == "ok":
        return "ok None" if v is None else "ok " + sx(v)
    return "none" if t == "exc" else t


def i_to_script(addr):
    t, v = guarded(address_to_scriptpubkey, addr)
    if t == "ok":
        return "ok None" if v is None else "ok " + hx(v.data)
    return "none" if t == "exc" else t


def yields_script(ans):
    return ans.startswith("ok ") and ans != "ok None"


# ------------------------------------------------------------------ checks
def check_b58_bytes(c, kind, b):
    c.count(("b58", b), nontrivial=len(b) > 0)
    c.tally("b58:bytes:" + kind)
    info = {"kind": kind, "bytes": hx(b)}
    e = i_b58enc(b)
    c.expect("b58.enc " + hx(b), e, info)
    c.expect("b58.spec_enc " + hx(b), e, info)
    ec = i_b58enc_check(b)
    c.expect("b58.enc_check " + hx(b), ec, info)
    c.expect("b58.spec_enc_check " + hx(b), ec, info)
    # property on the implementation itself
    if e.startswith("ok"):
        s = base58.encode(b)
        back = i_b58dec(s)
        if back != "ok " + hx(b):
            c.fail("base58 decode(encode(b)) != b", {"op": "b58.roundtrip", "bytes": hx(b), "encoded": s, "decoded": back})
        c.expect("b58.dec " + sx(s), back, info)
        if not all(ch in B58 for ch in s):
            c.fail("base58 encode produced a character outside the alphabet", {"op": "b58.enc", "bytes": hx(b), "encoded": s})
    else:
        c.fail("base58 encode failed", {"op": "b58.enc", "bytes": hx(b), "answer": e})
    if ec.startswith("ok"):
        s = base58.encode_check(b)
        back = i_b58dec_check(s)
        if back != "ok " + hx(b):
            c.fail("base58 decode_check(encode_check(b)) != b", {"op": "b58.roundtrip_check", "bytes": hx(b), "encoded": s, "decoded": back})
        c.expect("b58.dec_check " + sx(s), back, info)


def check_b58_string(c, kind, s, check=False):
    c.count(("b58s", s, check), nontrivial=True)
    info = {"kind": kind, "string": s}
    if check:
        r = i_b58dec_check(s)
        c.tally("b58:dec_check:" + kind + (":accepted" if r != "none" else ":rejected"))
        c.expect("b58.dec_check " + sx(s), r, info)
        if r.startswith("ok"):
            p = base58.decode_check(s)
            # accepted => it is the Base58Check encoding of the payload (spec oracle)
            c.expect("b58.spec_enc_check " + hx(p), "ok " + sx(s), info)
    else:
        r = i_b58dec(s)
        c.tally("b58:dec:" + kind + (":accepted" if r != "none" else ":rejected"))
        c.expect("b58.dec " + sx(s), r, info)
        if r.startswith("ok"):
            b = base58.decode(s)
            if base58.encode(b) != s:
                c.fail("base58 encode(decode(s)) != s", {"op": "b58.roundtrip_str", "string": s, "decoded": hx(b), "reencoded": base58.encode(b)})
            c.expect("b58.spec_enc " + hx(b), "ok " + sx(s), info)
            if not all(ch in REF_B58 for ch in s):
                c.fail("base58 decode accepted a character outside the alphabet", {"op": "b58.dec", "string": s})
        else:
            if s and all(ch in REF_B58 for ch in s):
                c.fail("base58 decode rejected a string over the alphabet", {"op": "b58.dec", "string": s})


REF_B58 = "123456789ABCDEFGHJKLMNPQRSTUVWXYZabcdefghijkmnopqrstuvwxyz"


def gen_b58_bytes(rng):
    r = rng.random()
    if r < 0.05:
        return "empty", b""
    if r < 0.15:
        return "zeros", bytes(rng.randrange(1, 40))
    if r < 0.45:
        return "zero-prefixed", bytes(rng.randrange(1, 6)) + gen.rbytes(rng, rng.randrange(0, 40))
    if r < 0.5:
        return "ff", b"\xff" * rng.randrange(1, 40)
    if r < 0.55:
        return "long", gen.rbytes(rng, rng.randrange(64, 300))
    return "random", gen.rbytes(rng, rng.randrange(1, 64))


def gen_b58_string(rng):
    r = rng.random()
    n = rng.randrange(0, 50)
    if r < 0.5:
        return "alphabet", "1" * rng.choice([0, 0, 1, 2, 5]) + "".join(rng.choice(B58) for _ in range(n))
    if r < 0.6:
        return "ones", "1" * n
    s = list("".join(rng.choice(B58) for _ in range(n + 1)))
    s[rng.randrange(len(s))] = rng.choice(["0", "O", "I", "l", " ", "\n", "-", "_", "é", "€", "+", "/"])
    return "bad-char", "".join(s)


def check_segwit(c, kind, hrp, ver, prog, valid_expected=None):
    """bech32.encode / decode on (hrp, ver, prog)"""
    c.count(("segwit", hrp, ver, prog), nontrivial=True)
    info = {"kind": kind, "hrp": hrp, "ver": ver, "prog": hx(prog)}
    e = i_bech32enc(hrp, ver, prog)
    c.expect("bech32.enc %s %d %s" % (sx(hrp), ver, hx(prog)), e, info)
    valid = (0 <= ver <= 16 and 2 <= len(prog) <= 40 and (ver != 0 or len(prog) in (20, 32))
             and 1 <= len(hrp) and all(33 <= ord(ch) <= 126 and not ch.isupper() for ch in hrp)
             and len(hrp) + 1 + 1 + (len(prog) * 8 + 4) // 5 + 6 <= 90)
    c.tally("bech32:enc:" + kind + (":valid" if valid else ":invalid"))
    if valid:
        # the address text equals the BIP173/BIP350 encoding (Lean spec as oracle)
        c.expect("bech32.spec_enc %s %d %s" % (sx(hrp), ver, hx(prog)), e, info)
        if not e.startswith("ok"):
            c.fail("bech32.encode failed on a valid (hrp, version, program)", dict(info, op="bech32.enc", answer=e))
        else:
            a = bech32.encode(hrp, ver, prog)
            d = i_bech32dec(hrp, a)
            if d != "ok %d %s" % (ver, nats(list(prog))):
                c.fail("bech32 decode(encode(hrp, ver, prog)) != (ver, prog)", dict(info, op="bech32.roundtrip", address=a, decoded=d))
            c.expect("bech32.dec %s %s" % (sx(hrp), sx(a)), d, info)
            c.expect("bech32.raw_dec " + sx(a), i_rawdec(a), info, proven=False)
            # decoding with another hrp is rejected
            other = "tb" if hrp != "tb" else "bc"
            d2 = i_bech32dec(other, a)
            if d2 != "none":
                c.fail("bech32.decode accepted an address under a different hrp", dict(info, op="bech32.dec", address=a, hrp_used=other))
    else:
        if e != "none":
            c.fail("bech32.encode produced an address for an invalid (hrp, version, program)", dict(info, op="bech32.enc", answer=e))


def check_segwit_string(c, kind, hrp, s, must_reject):
    """bech32.decode(hrp, s) on a hostile string"""
    c.count(("segdec", hrp, s), nontrivial=True)
    info = {"kind": kind, "hrp": hrp, "string": s}
    d = i_bech32dec(hrp, s)
    c.tally("bech32:dec:" + kind + (":accepted" if d != "none" else ":rejected"))
    # the model's decoder is proved to accept exactly the valid BIP173/BIP350 addresses (C11X.segwit_decode_iff)
    c.expect("bech32.dec %s %s" % (sx(hrp), sx(s)), d, info)
    c.expect("bech32.raw_dec " + sx(s), i_rawdec(s), info, proven=False)
    if d != "none":
        # accepted => s is (up to case) the spec encoding of what was returned
        ver, prog = bech32.decode(hrp, s)
        c.expect("bech32.spec_enc %s %d %s" % (sx(hrp), ver, hx(bytes(prog))), "ok " + sx(s.lower()), info)
        if must_reject:
            c.fail("bech32.decode accepted a string that must be rejected (%s)" % kind, dict(info, op="bech32.dec", answer=d))


def check_convertbits(c, rng):
    r = rng.random()
    if r < 0.35:
        f, to, pad = 8, 5, True
        data = list(gen.rbytes(rng, rng.randrange(0, 45)))
    elif r < 0.7:
        f, to, pad = 5, 8, False
        if rng.random() < 0.5:
            data = ref_to5(gen.rbytes(rng, rng.randrange(0, 45)))
            if rng.random() < 0.3 and data:
                data[-1] ^= rng.randrange(1, 32)
            if rng.random() < 0.2:
                data.append(0)
        else:
            data = [rng.randrange(32) for _ in range(rng.randrange(0, 70))]
    else:
        f, to, pad = rng.choice([(8, 5, False), (5, 8, True), (8, 11, True), (11, 8, False), (1, 8, False), (8, 1, True),
                                 (3, 7, True), (7, 3, False), (8, 8, True), (5, 5, False)])
        data = [rng.randrange(1 << f) for _ in range(rng.randrange(0, 40))]
    if rng.random() < 0.08 and data:
        data[rng.randrange(len(data))] = (1 << f) + rng.randrange(0, 300)
    a = i_convertbits(data, f, to, pad)
    c.count(("cb", f, to, pad, tuple(data)), nontrivial=len(data) > 1)
    c.tally("convertbits:%d->%d:%s:%s" % (f, to, "pad" if pad else "nopad", "ok" if a != "none" else "none"))
    c.expect("bech32.convertbits %d %d %d %s" % (f, to, 1 if pad else 0, nats(data)), a,
             {"from": f, "to": to, "pad": pad, "data": data}, proven=False)
    if (f, to, pad) == (8, 5, True) and a != "none":
        back = i_convertbits(bech32.convertbits(data, 8, 5), 5, 8, False)
        if back != "ok " + nats(data):
            c.fail("convertbits 8->5->8 is not the identity", {"op": "convertbits", "data": data, "back": back})


def spec_valid_address(c, addr, script):
    """is `addr` (lower-cased for bech32) the *spec* encoding of `script` for a network of embit's table?
    Uses only the Lean spec encoder, synchronously."""
    k = classify_script(script)
    if k is None:
        # a witness program of a later version (BIP350: v1 programs of 2..40 bytes, v2..v16): a valid address of a
        # script type the property does not speak about; judged with the harness's own reference encoder
        if (4 <= len(script) <= 42 and (script[0] == 0x51 or 0x52 <= script[0] <= 0x60) and script[1] == len(script) - 2
                and addr in (addr.lower(), addr.upper())):
            ver = script[0] - 0x50
            for (_, _, _, hrp, _) in netparams():
                if addr.lower() == ref_bech32(hrp, [ver] + ref_to5(script[2:]), 0x2BC830A3):
                    return True, "future-witness-v%d" % ver
        return False, "not-a-standard-script"
    kind, payload = k
    lines = []
    for (name, pk, sh, hrp, _) in netparams():
        lines.append("addr.spec %s %s %d %d %s" % (kind, hx(payload), pk[0], sh[0], sx(hrp)))
    outs = run_driver(lines)
    if kind in ("p2pkh", "p2sh"):
        cand = addr
    elif addr == addr.lower():
        cand = addr
    elif addr == addr.upper():
        cand = addr.lower()          # BIP173: the all-upper-case form is the same address
    else:
        return False, "mixed-case"   # BIP173: mixed case is never valid
    for o in outs:
        if o == "ok %s %s" % (sx(cand), hx(script)):
            return True, kind
    return False, kind



# ---- C11X: non-canonical spellings and the cross-variant neighbour, exercised on the real code
CROSS_PATTERN_59 = {58: 1, 45: 22, 36: 31, 16: 25}   # offset from the end -> xor value (theorem C11X.cross_pattern)


def hrps_have_lower():
    """hypothesis of C11X.to_script_iff_exact, evaluated on the loaded table"""
    return all(any("a" <= ch <= "z" for ch in p[3]) for p in netparams())


def neighbour59(addr):
    """C11X `neighbour`: symbol values of the last 59 characters xor the pattern; None when not applicable"""
    sep = addr.rfind("1")
    tail = addr[sep + 1:]
    if len(tail) != 59 or any(ch not in REF_CHARSET for ch in tail):
        return None
    d = [REF_CHARSET.index(ch) for ch in tail]
    for k, x in CROSS_PATTERN_59.items():
        d[58 - k] ^= x
    return addr[:sep + 1] + "".join(REF_CHARSET[x] for x in d)


def check_spellings(c, addr, hrp, kind):
    """theorems to_script_iff_exact / noncanonical_spelling_rejected / upper_case_spelling / segwit_decode_iff:
    the all-upper-case spelling is accepted by bech32.decode and refused by address_to_scriptpubkey, a mixed-case
    spelling is refused by both"""
    if not hrps_have_lower():
        c.tally("spelling:skipped(a table hrp has no lower-case letter)")
        return
    info = {"kind": kind, "address": addr, "hrp": hrp}
    c.count(("spelling", addr), nontrivial=True)
    up = addr.upper()
    a_up = i_to_script(up)
    d_low = i_bech32dec(hrp, addr)
    d_up = i_bech32dec(hrp, up)
    c.expect("addr.to_script " + sx(up), a_up, info, proven=False)
    c.expect("bech32.dec %s %s" % (sx(hrp), sx(up)), d_up, info)
    # embit's address_to_scriptpubkey refuses the all-upper-case form (theorem C11X.upper_case_spelling; the model
    # comparison above notices a change); the property itself only demands that IF it is accepted it is the same address
    if a_up != "none" and a_up != i_to_script(addr):
        c.fail("the all-upper-case spelling of a segwit address decodes to another script than the address itself",
               dict(info, op="addr.to_script", string=up, answer=a_up))
    if d_up == "none" or d_up != d_low:
        c.fail("bech32.decode does not accept the all-upper-case spelling of a valid address (BIP173; theorem "
               "C11X.segwit_decode_iff)", dict(info, op="bech32.dec", string=up, answer=d_up, lower_answer=d_low))
    letters = [i for i in range(len(addr)) if addr[i].isalpha()]
    i = letters[len(letters) // 2]
    mixed = addr[:i] + addr[i].upper() + addr[i + 1:]
    if mixed != addr and mixed != up:
        a_mx = i_to_script(mixed)
        d_mx = i_bech32dec(hrp, mixed)
        c.expect("addr.to_script " + sx(mixed), a_mx, info, proven=False)
        c.expect("bech32.dec %s %s" % (sx(hrp), sx(mixed)), d_mx, info)
        if a_mx != "none" or d_mx != "none":
            c.fail("a mixed-case spelling of a segwit address is accepted (theorems C11.mixed_case_rejected, "
                   "C11X.noncanonical_spelling_rejected)", dict(info, op="addr.to_script", string=mixed, answer=a_mx, decode=d_mx))
    c.tally("spelling:upper-refused,decode-accepts;mixed-refused")


def check_to_script(c, kind, s, origin=None, hamming=None):
    """address_to_scriptpubkey on a hostile string `s`: impl vs model, and the property predicate.
    origin = (address it was derived from, its script) when `s` is a mutation."""
    c.count(("to_script", s), nontrivial=True)
    a = i_to_script(s)
    info = {"kind": kind, "string": s, "origin": origin[0] if origin else None, "hamming": hamming}
    c.expect("addr.to_script " + sx(s), a, info, proven=False)
    if a in ("timeout",):
        c.fail("address decoding did not terminate", dict(info, op="addr.to_script"))
        return a
    if yields_script(a):
        script = bytes.fromhex(a[3:]) if a[3:] != "-" else b""
        ok, k = spec_valid_address(c, s, script)
        if not ok:
            c.tally("to_script:" + kind + ":ACCEPTED-INVALID")
            c.fail("address decoding yields a script for a string that is not a valid address (%s)" % kind,
                   dict(info, op="addr.to_script", script=hx(script), script_kind=k))
        elif origin is not None and s != origin[0]:
            # a valid address in its own right next to another valid address
            ko = classify_script(origin[1])[0]
            same_variant = (k in ("p2wpkh", "p2wsh")) == (ko in ("p2wpkh", "p2wsh"))
            if hamming is not None and hamming <= 4 and (same_variant or k in ("p2pkh", "p2sh")):
                c.fail("a valid address with <= 4 substitutions in the same checksum variant decodes",
                       dict(info, op="addr.to_script", script=hx(script)))
            else:
                if (hamming is not None and hamming <= 4 and ko in ("p2wpkh", "p2wsh", "p2tr") and len(s) == len(origin[0])
                        and s.split("1")[0] == origin[0].split("1")[0]):
                    # C11X.cross_variant_iff / cross_variant_p2wpkh_none: the only accepted string of that kind
                    if ko == "p2wpkh" or s.lower() != neighbour59(origin[0]):
                        c.fail("a string within <= 4 data-part substitutions of an address decodes and is not the characterised "
                               "cross-variant neighbour (theorems C11X.cross_variant_iff / cross_variant_p2wpkh_none)",
                               dict(info, op="addr.to_script", script=hx(script), expected_only=neighbour59(origin[0])))
                    else:
                        c.fail("a bech32 string within four substitutions of a valid address yields a script (the BIP350 "
                               "cross-variant neighbour)",
                               dict(info, op="addr.to_script", kind="cross-variant-neighbour", characterised=True,
                                    hamming=hamming, origin_kind=ko, got_kind=k, script=hx(script)))
                c.tally("to_script:" + kind + ":valid-neighbour(cross-variant)" if hamming is not None and hamming <= 4
                        else "to_script:" + kind + ":valid-other-address")
        else:
            c.tally("to_script:" + kind + ":accepted-valid")
    else:
        c.tally("to_script:" + kind + (":None" if a == "ok None" else ":rejected"))
    return a


def check_address(c, name, pk, sh, hrp, netdict, kind, payload, mutate_budget, exhaustive1):
    """script -> address -> script for one (network, type, payload), then mutations of the address."""
    rng = c.rng
    script = std_script(kind, payload)
    c.count(("addr", name, kind, payload), nontrivial=True)
    c.tally("addr:%s:%s" % (name, kind))
    info = {"network": name, "kind": kind, "payload": hx(payload)}
    a = i_address(script, netdict)
    net = "%s %s %s" % (hx(pk), hx(sh), sx(hrp))
    c.expect("addr.of_script %s %s" % (net, hx(script)), a, info)
    # the address text equals the Base58Check / BIP173 / BIP350 encoding (Lean spec as oracle)
    c.expect("addr.spec %s %s %d %d %s" % (kind, hx(payload), pk[0], sh[0], sx(hrp)),
             (a + " " + hx(script)) if yields_script(a) else a, info)
    c.expect("addr.type " + hx(script), "ok " + str(Script(script).script_type()), info)
    if not yields_script(a):
        c.fail("Script.address failed on a standard script", dict(info, op="addr.of_script", answer=a))
        return
    addr = Script(script).address(netdict)
    back = i_to_script(addr)
    if back != "ok " + hx(script):
        c.fail("script -> address -> script is not the identity", dict(info, op="addr.roundtrip", address=addr, back=back))
    c.expect("addr.to_script " + sx(addr), back, info)
    c.sample({"network": name, "kind": kind, "script": hx(script), "address": addr})
    origin = (addr, script)
    if kind in ("p2pkh", "p2sh"):
        mutate_b58(c, addr, origin, mutate_budget, exhaustive1)
    else:
        check_spellings(c, addr, hrp, kind)
        mutate_bech32(c, addr, hrp, origin, mutate_budget, exhaustive1)


def mutate_b58(c, addr, origin, budget, exhaustive1):
    rng = c.rng
    n = len(addr)
    # substitutions
    if exhaustive1:
        for i in range(n):
            for ch in B58:
                if ch != addr[i]:
                    check_to_script(c, "b58:subst1", addr[:i] + ch + addr[i + 1:], origin, 1)
    for _ in range(budget):
        k = rng.choice([1, 1, 2, 3, 4])
        s = list(addr)
        for i in rng.sample(range(n), k):
            s[i] = rng.choice([ch for ch in B58 if ch != s[i]])
        check_to_script(c, "b58:subst%d" % k, "".join(s), origin, k)
    for _ in range(max(2, budget // 3)):
        r = rng.random()
        if r < 0.2:
            check_to_script(c, "b58:truncate", addr[:rng.randrange(0, n)], origin)
        elif r < 0.3:
            check_to_script(c, "b58:drop-first", addr[rng.randrange(1, 4):], origin)
        elif r < 0.45:
            check_to_script(c, "b58:extend", addr + "".join(rng.choice(B58) for _ in range(rng.randrange(1, 4))), origin)
        elif r < 0.55:
            check_to_script(c, "b58:prepend-1", "1" * rng.randrange(1, 3) + addr, origin)
        elif r < 0.75:
            i = rng.choice([j for j in range(n) if addr[j].isalpha()])
            check_to_script(c, "b58:case", addr[:i] + addr[i].swapcase() + addr[i + 1:], origin)
        elif r < 0.85:
            i = rng.randrange(n + 1)
            check_to_script(c, "b58:space", addr[:i] + rng.choice([" ", "\n", "\t", "0", "O", "l", "I"]) + addr[i:], origin)
        else:
            i, j = rng.sample(range(n), 2)
            s = list(addr)
            s[i], s[j] = s[j], s[i]
            if "".join(s) != addr:
                check_to_script(c, "b58:transpose", "".join(s), origin)


def hostile_b58(c, rng, n):
    """Base58Check strings with a *valid* checksum but a wrong payload length or an unknown version byte"""
    nets = netparams()
    known = set(p[1] for p in nets) | set(p[2] for p in nets)
    for _ in range(n):
        r = rng.random()
        if r < 0.6:
            ver = rng.choice(sorted(known))
            ln = rng.choice([0, 1, 2, 19, 21, 22, 31, 32, 33, 40, rng.randrange(0, 45)])
            if ln == 20:
                ln = 19
            payload = ver + gen.rbytes(rng, ln)
            kind = "b58:wrong-length(%s)" % ("<20" if ln < 20 else ">20")
        elif r < 0.9:
            ver = bytes([rng.choice([x for x in range(256) if bytes([x]) not in known])])
            payload = ver + gen.rbytes(rng, 20)
            kind = "b58:unknown-version"
        elif r < 0.95:
            payload = b""
            kind = "b58:empty-payload"
        else:
            payload = gen.rbytes(rng, rng.randrange(1, 60))
            kind = "b58:random-payload"
        s = base58.encode_check(payload)
        a = check_to_script(c, kind, s)
        # D16: never a script for a payload that is not version + 20 bytes
        if yields_script(a) and len(payload) != 21:
            c.fail("Base58Check payload of %d bytes yields a script" % len(payload),
                   {"op": "addr.to_script", "string": s, "payload": hx(payload), "answer": a, "kind": kind})


def mutate_bech32(c, addr, hrp, origin, budget, exhaustive1):
    rng = c.rng
    n = len(addr)
    sep = addr.rfind("1")
    datapos = list(range(sep + 1, n))
    if exhaustive1:
        for i in datapos:
            for ch in CHARSET:
                if ch != addr[i]:
                    check_to_script(c, "bech32:subst1", addr[:i] + ch + addr[i + 1:], origin, 1)
        for i in range(0, sep + 1):
            for ch in "abcqrt1x0":
                if ch != addr[i]:
                    check_to_script(c, "bech32:subst1-hrp", addr[:i] + ch + addr[i + 1:], origin, 1)
    for _ in range(budget):
        k = rng.choice([1, 2, 2, 3, 3, 4, 4, 4])
        s = list(addr)
        pos = rng.sample(datapos, k) if rng.random() < 0.85 else rng.sample(range(n), k)
        for i in pos:
            s[i] = rng.choice([ch for ch in CHARSET if ch != s[i]])
        check_to_script(c, "bech32:subst%d" % k, "".join(s), origin, k)
    # burst: up to 4 adjacent characters
    for _ in range(max(1, budget // 4)):
        k = rng.randrange(2, 5)
        i = rng.randrange(sep + 1, n - k + 1)
        s = list(addr)
        for j in range(i, i + k):
            s[j] = rng.choice([ch for ch in CHARSET if ch != s[j]])
        check_to_script(c, "bech32:burst%d" % k, "".join(s), origin, k)
    for _ in range(max(3, budget // 3)):
        r = rng.random()
        if r < 0.15:
            check_to_script(c, "bech32:truncate", addr[:rng.randrange(0, n)], origin)
        elif r < 0.25:
            check_to_script(c, "bech32:extend", addr + "".join(rng.choice(CHARSET) for _ in range(rng.randrange(1, 4))), origin)
        elif r < 0.3:
            i = rng.randrange(sep + 1, n + 1)
            check_to_script(c, "bech32:insert", addr[:i] + rng.choice(CHARSET) + addr[i:], origin)
        elif r < 0.35:
            i = rng.randrange(sep + 1, n)
            check_to_script(c, "bech32:delete", addr[:i] + addr[i + 1:], origin)
        elif r < 0.55:
            letters = [i for i in range(n) if addr[i].isalpha()]
            s = list(addr)
            for i in rng.sample(letters, rng.randrange(1, min(4, len(letters)) + 1)):
                s[i] = s[i].upper()
            check_to_script(c, "bech32:mixed-case", "".join(s), origin)
        elif r < 0.6:
            a = check_to_script(c, "bech32:all-upper", addr.upper(), origin)
            c.tally("observation:all-uppercase-address:" + ("accepted" if yields_script(a) else "rejected"))
        elif r < 0.7:
            i = rng.randrange(n + 1)
            check_to_script(c, "bech32:bad-char", addr[:i] + rng.choice([" ", "b", "i", "o", "1", "\n", "\x7f", "é", "B"]) + addr[i:], origin)
        elif r < 0.8:
            other = rng.choice([h for (_, _, _, h, _) in netparams() if h != hrp])
            check_to_script(c, "bech32:swap-hrp-keep-checksum", other + addr[sep:], origin)
        elif r < 0.9:
            check_to_script(c, "bech32:double-separator", addr[:sep] + "1" + addr[sep:], origin)
        else:
            i, j = rng.sample(datapos, 2)
            s = list(addr)
            s[i], s[j] = s[j], s[i]
            if "".join(s) != addr:
                check_to_script(c, "bech32:transpose", "".join(s), origin)


def hostile_bech32(c, rng, n):
    """strings with a *valid* checksum that are nevertheless not addresses"""
    nets = netparams()
    hrps = sorted(set(p[3] for p in nets))
    for _ in range(n):
        r = rng.random()
        hrp = rng.choice(hrps)
        must = True          # address_to_scriptpubkey must not yield a script
        bip_invalid = True   # bech32.decode(hrp, s) must reject as well (invalid under BIP173/BIP350)
        if r < 0.2:
            # D15: unknown HRP, otherwise perfectly valid
            hrp = rng.choice(["xx", "bcc", "b", "tbb", "ltc", "ex", "el", "lq", "bc2", "x", "BC", "Tb", "bc1", "t1b"])
            ver = rng.choice([0, 1])
            prog = gen.rbytes(rng, 20 if ver == 0 and rng.random() < 0.5 else 32)
            s = ref_bech32(hrp.lower(), [ver] + ref_to5(prog), 1 if ver == 0 else 0x2BC830A3)
            if hrp != hrp.lower():
                s = hrp + s[len(hrp):]
            kind = "bech32:unknown-hrp"
            bip_invalid = False
        elif r < 0.4:
            # wrong checksum variant for the witness version
            ver = rng.choice([0, 0, 1, 1, 2, 16])
            prog = gen.rbytes(rng, rng.choice([20, 32]) if ver == 0 else 32)
            s = ref_bech32(hrp, [ver] + ref_to5(prog), 0x2BC830A3 if ver == 0 else 1)
            kind = "bech32:wrong-variant-v%d" % min(ver, 2)
        elif r < 0.6:
            # invalid program length with the right variant
            ver = rng.choice([0, 0, 1, 1])
            ln = rng.choice([0, 1, 2, 19, 21, 31, 33, 40, 41, 42] if ver == 0 else [0, 1, 2, 20, 31, 33, 40, 41])
            prog = gen.rbytes(rng, ln)
            s = ref_bech32(hrp, [ver] + ref_to5(prog), 1 if ver == 0 else 0x2BC830A3)
            kind = "bech32:bad-program-length-v%d" % ver
            bip_invalid = ln < 2 or ln > 40 or ver == 0
        elif r < 0.7:
            # witness versions 2..31 (embit yields scripts for v0/v1 only)
            ver = rng.choice([2, 3, 15, 16, 17, 31])
            prog = gen.rbytes(rng, 32)
            s = ref_bech32(hrp, [ver] + ref_to5(prog), 0x2BC830A3)
            kind = "bech32:version-%s" % ("2-16" if ver <= 16 else "17-31")
            bip_invalid = ver > 16
        elif r < 0.8:
            # non-zero padding bits / a whole extra padding group
            ver = rng.choice([0, 1])
            prog = gen.rbytes(rng, 32 if ver else rng.choice([20, 32]))
            nb = (5 - (len(prog) * 8) % 5) % 5
            if rng.random() < 0.6 and nb:
                pad = [rng.randrange(2) for _ in range(nb)]
                if not any(pad):
                    pad[rng.randrange(nb)] = 1
                d = ref_to5(prog, pad)
                kind = "bech32:nonzero-padding"
            else:
                d = ref_to5(prog) + [0]
                kind = "bech32:extra-padding-group"
                # nb + 5 >= 8 makes one more (zero) program byte instead of over-long padding: valid for v1
                bip_invalid = ver == 0 or nb + 5 < 8
            s = ref_bech32(hrp, [ver] + d, 1 if ver == 0 else 0x2BC830A3)
        elif r < 0.85:
            # empty data part / no version symbol
            s = ref_bech32(hrp, [], rng.choice([1, 0x2BC830A3]))
            kind = "bech32:empty-data"
        elif r < 0.9:
            # plain bech32 strings that are not segwit addresses
            d = [rng.randrange(32) for _ in range(rng.randrange(0, 60))]
            s = ref_bech32(hrp, d, rng.choice([1, 0x2BC830A3]))
            kind = "bech32:random-data-valid-checksum"
            must = bip_invalid = False
        elif r < 0.95:
            # longer than 90 characters, otherwise valid shape
            d = [1] + [rng.randrange(32) for _ in range(90)]
            s = ref_bech32(hrp, d, 0x2BC830A3)
            kind = "bech32:too-long"
        else:
            s = "".join(rng.choice(CHARSET + "1bc") for _ in range(rng.randrange(0, 70)))
            kind = "bech32:random-string"
            must = bip_invalid = False
        a = check_to_script(c, kind, s)
        if must and not bip_invalid:
            # a string that IS valid under BIP173/BIP350 (later witness version, v1 program of another legal length):
            # the property does not forbid a script for it; check_to_script has judged any script against the spec
            must = kind == "bech32:unknown-hrp"
        if must and yields_script(a):
            c.fail("address decoding yields a script for %s" % kind, {"op": "addr.to_script", "string": s, "answer": a, "kind": kind})
        check_segwit_string(c, kind, s.split("1")[0].lower(), s, must_reject=bip_invalid)


# ---- the BIP350 cross-variant neighbour (DESIGN Appendix D): constructed, must be treated as a valid address
def _syndrome_cols(length):
    """col[k][j] = effect on polymod of flipping bit j of the symbol k places from the end"""
    cols = []
    for k in range(length):
        row = []
        for j in range(5):
            v = [0] * length
            v[length - 1 - k] = 1 << j
            row.append(ref_polymod_from0(v))
        cols.append(row)
    return cols


def ref_polymod_from0(values):
    gen_ = [0x3B6A57B2, 0x26508E6D, 0x1EA119FA, 0x3D4233DD, 0x2A1462B3]
    chk = 0
    for v in values:
        b = chk >> 25
        chk = ((chk & 0x1FFFFFF) << 5) ^ v
        for i in range(5):
            if (b >> i) & 1:
                chk ^= gen_[i]
    return chk


def _solve(cols, target):
    """GF(2): find subset of cols xoring to target; returns bitmask over cols or None"""
    basis = []  # (vec, mask)
    for i, v in enumerate(cols):
        m = 1 << i
        for (bv, bm) in basis:
            if v ^ bv < v:
                v ^= bv
                m ^= bm
        if v:
            basis.append((v, m))
            basis.sort(reverse=True)
    m = 0
    for (bv, bm) in basis:
        if target ^ bv < target:
            target ^= bv
            m ^= bm
    return m if target == 0 else None


_HOP_CACHE = {}


def find_hop(ndata, search):
    """error pattern (offset-from-end -> xor value) with the version symbol flipped 0<->1 and three more
    symbols changed whose syndrome is BECH32 xor BECH32M, for a data part of `ndata` symbols"""
    if ndata in _HOP_CACHE:
        return _HOP_CACHE[ndata]
    cols = _syndrome_cols(ndata)
    D = 1 ^ 0x2BC830A3
    vk = ndata - 1
    target = D ^ cols[vk][0]
    hints = {59: [(16, 36, 45)], 39: [(7, 28, 33)]}.get(ndata, [])
    cands = list(hints)
    if search:
        cands += [(a, b, cc) for a in range(vk) for b in range(a + 1, vk) for cc in range(b + 1, vk)]
    res = None
    for (a, b, cc) in cands:
        m = _solve(cols[a] + cols[b] + cols[cc], target)
        if m is not None:
            e = {vk: 1, a: m & 31, b: (m >> 5) & 31, cc: (m >> 10) & 31}
            if all(e.values()):
                res = e
                break
    _HOP_CACHE[ndata] = res
    return res


_ALL_HOPS = {}


def all_hops(ndata):
    """every error pattern of weight <= 4 with the version symbol flipped 0<->1 whose syndrome is BECH32 xor BECH32M,
    computed with embit's own bech32_polymod (xor-linear: syndrome(v) = polymod(v) xor polymod(0..0))"""
    if ndata in _ALL_HOPS:
        return _ALL_HOPS[ndata]
    z = bech32.bech32_polymod([0] * ndata)
    cols = []
    for k in range(ndata):
        row = []
        for j in range(5):
            v = [0] * ndata
            v[ndata - 1 - k] = 1 << j
            row.append(bech32.bech32_polymod(v) ^ z)
        cols.append(row)
    D = int(bech32.BECH32_CONST) ^ int(bech32.BECH32M_CONST)
    vk = ndata - 1
    target = D ^ cols[vk][0]
    sols = set()
    for a in range(vk):
        for b in range(a + 1, vk):
            for cc in range(b + 1, vk):
                m = _solve(cols[a] + cols[b] + cols[cc], target)
                if m is not None:
                    e = {vk: 1, a: m & 31, b: (m >> 5) & 31, cc: (m >> 10) & 31}
                    sols.add(tuple(sorted((k, x) for k, x in e.items() if x)))
    _ALL_HOPS[ndata] = sorted(sols)
    return _ALL_HOPS[ndata]


def check_hop(c, addr, origin, search):
    sep = addr.rfind("1")
    data = [REF_CHARSET.index(ch) for ch in addr[sep + 1:]]
    e = find_hop(len(data), search)
    if e is None:
        c.tally("hop:not-constructed")
        return
    n = len(data)
    d2 = list(data)
    for k, x in e.items():
        d2[n - 1 - k] ^= x
    s = addr[:sep + 1] + "".join(REF_CHARSET[x] for x in d2)
    ham = sum(1 for x, y in zip(s, addr) if x != y)
    a = check_to_script(c, "bech32:cross-variant-hop", s, origin, ham)
    c.tally("hop:%d-symbols:%s" % (n, "decodes(valid BIP350 address)" if yields_script(a) else "rejected"))
    rec = {"op": "addr.to_script", "address": addr, "string": s, "pattern": {str(k): v for k, v in e.items()}, "answer": a}
    if n == 59:
        # C11X.cross_pattern / cross_variant_neighbour_accepted
        if e != CROSS_PATTERN_59 or s != neighbour59(addr) or ham != 4:
            c.fail("the constructed cross-variant neighbour is not the pattern of theorem C11X.cross_pattern", rec)
        ko = classify_script(origin[1])[0]
        ks = classify_script(bytes.fromhex(a[3:]))[0] if yields_script(a) and classify_script(bytes.fromhex(a[3:])) else None
        if ks == {"p2wsh": "p2tr", "p2tr": "p2wsh"}.get(ko) and ks is not None:
            # the property's last clause ("never a script for a bech32 string with up to four substituted characters")
            # fails at exactly this string for every BIP173/BIP350-conformant decoder: known finding C11-KF1
            c.fail("a bech32 string within four substitutions of a valid address yields a script (the BIP350 cross-variant "
                   "neighbour, theorem C11X.cross_variant_neighbour_accepted)",
                   dict(rec, kind="cross-variant-neighbour", characterised=(s == neighbour59(addr)), hamming=ham,
                        origin_kind=ko, got_kind=ks))
        else:
            c.tally("hop:59-symbols:neighbour-not-accepted-as-the-other-type")
        if search:
            sols = all_hops(59)
            c.tally("hop:59-symbols:solutions-with-version-flip=%d" % len(sols))
            if sols != [tuple(sorted(CROSS_PATTERN_59.items()))]:
                c.fail("embit's bech32_polymod admits another cross-variant pattern of weight <= 4 for 59 symbols "
                       "(theorem C11X.cross_variant_words)", dict(rec, solutions=[list(x) for x in sols]))
    elif n == 39:
        # C11X.cross_variant_p2wpkh_none; bech32.decode itself accepts the string (a valid v1 address, 20 bytes)
        if yields_script(a):
            c.fail("a 4-substitution neighbour of a p2wpkh address yields a script (theorem C11X.cross_variant_p2wpkh_none)", rec)
        d = i_bech32dec(addr[:sep], s)
        if not d.startswith("ok 1 20 "):
            c.fail("bech32.decode rejects the BIP350-valid v1 neighbour of a p2wpkh address (theorem C11X.segwit_decode_iff)",
                   dict(rec, decode=d))
    c.extra.setdefault("cross_variant_examples", [])
    if len(c.extra["cross_variant_examples"]) < 4:
        c.extra["cross_variant_examples"].append({"from": addr, "to": s, "substitutions": ham, "answer": a})


# ------------------------------------------------------------------ corpus (witnesses of the repaired defects)
CORPUS = [
    ("D15:unknown-hrp", "xx1qqqqsyqcyq5rqwzqfpg9scrgwpugpzysnec80ce"),
    ("D15:unknown-hrp", "zz91pqqqsyqcyq5rqwzqfpg9scrgwpugpzysnzs23v9ccrydpk8qarc0s6m8n9q"),
    ("D16:payload-1-byte", "1Wh4bh"),
    ("D16:payload-20-bytes", "11GsChQR2U32pvwJcDNPoYHhGcnz5Rv"),
    ("D16:payload-41-bytes", "115JkfdNj5rstZ9tyucpAVE72JzKybsHQcXsjSxA1bxmrydHHvtuPkZ4Swxm"),
    ("D16:p2sh-payload-20-bytes", "TSPEVnnHbX6kz3GDsA4rdUik6SfKXmJR"),
    ("unknown-version", "TZJqCCFeCFdJJaGGgNhTbhcLdyjmqUrgFq"),
    ("empty-payload", "3QJmnh"),
    ("bip173:valid-upper", "BC1QW508D6QEJXTDG4Y5R3ZARVARY0C5XW7KV8F3T4"),
    ("bip173:valid", "bc1qw508d6qejxtdg4y5r3zarvary0c5xw7kv8f3t4"),
    ("bip173:valid", "tb1qrp33g0q5c5txsp9arysrx4k6zdkfs4nce4xj0gdcccefvpysxf3q0sl5k7"),
    ("bip350:valid", "bc1p0xlxvlhemja6c4dqv22uapctqupfhlxm9h8z3k2e72q4k9hcz7vqzk5jj0"),
    ("bip350:valid-v1-40-bytes", "bc1pw508d6qejxtdg4y5r3zarvary0c5xw7kw508d6qejxtdg4y5r3zarvary0c5xw7kt5nd6y"),
    ("bip350:valid-v16", "BC1SW50QGDZ25J"),
    ("bip350:valid-v2", "bc1zw508d6qejxtdg4y5r3zarvaryvaxxpcs"),
    ("bip350:invalid-hrp", "tc1p0xlxvlhemja6c4dqv22uapctqupfhlxm9h8z3k2e72q4k9hcz7vq5zuyut"),
    ("bip350:invalid-variant", "bc1p0xlxvlhemja6c4dqv22uapctqupfhlxm9h8z3k2e72q4k9hcz7vqh2y7hd"),
    ("bip350:invalid-variant", "tb1z0xlxvlhemja6c4dqv22uapctqupfhlxm9h8z3k2e72q4k9hcz7vqglt7rf"),
    ("bip350:invalid-variant", "BC1S0XLXVLHEMJA6C4DQV22UAPCTQUPFHLXM9H8Z3K2E72Q4K9HCZ7VQ54WELL"),
    ("bip350:invalid-variant", "bc1qw508d6qejxtdg4y5r3zarvary0c5xw7kemeawh"),
    ("bip350:invalid-variant", "tb1q0xlxvlhemja6c4dqv22uapctqupfhlxm9h8z3k2e72q4k9hcz7vq24jc47"),
    ("bip350:invalid-char", "bc1p38j9r5y49hruaue7wxjce0updqjuyyx0kh56v8s25huc6995vvpql3jow4"),
    ("bip350:invalid-version", "BC130XLXVLHEMJA6C4DQV22UAPCTQUPFHLXM9H8Z3K2E72Q4K9HCZ7VQ7ZWS8R"),
    ("bip350:invalid-length", "bc1pw5dgrnzv"),
    ("bip350:invalid-length", "bc1p0xlxvlhemja6c4dqv22uapctqupfhlxm9h8z3k2e72q4k9hcz7v8n0nx0muaewav253zgeav"),
    ("bip350:invalid-length", "BC1QR508D6QEJXTDG4Y5R3ZARVARYV98GJ9P"),
    ("bip350:mixed-case", "tb1p0xlxvlhemja6c4dqv22uapctqupfhlxm9h8z3k2e72q4k9hcz7vq47Zagq"),
    ("bip350:zero-padding-too-long", "bc1p0xlxvlhemja6c4dqv22uapctqupfhlxm9h8z3k2e72q4k9hcz7v07qwwzcrf"),
    ("bip350:nonzero-padding", "tb1p0xlxvlhemja6c4dqv22uapctqupfhlxm9h8z3k2e72q4k9hcz7vpggkg4j"),
    ("bip350:empty-data", "bc1gmk9yu"),
    ("bip173:valid-b58", "1A1zP1eP5QGefi2DMPTfTL5SLmv7DivfNa"),
    ("bip16:valid-b58", "3J98t1WpEZ73CNmQviecrnyiWrnqRhWNLy"),
    ("empty", ""),
    ("one", "1"),
]


def corpus(c):
    for kind, s in CORPUS:
        a = check_to_script(c, "corpus:" + kind, s)
        must_reject = kind.startswith(("D15", "D16", "bip350:invalid", "bip350:mixed", "bip350:zero", "bip350:nonzero",
                                       "bip350:empty", "empty", "one", "empty-payload", "unknown-version"))
        if must_reject and yields_script(a):
            c.fail("address decoding yields a script for %s" % kind, {"op": "addr.to_script", "string": s, "answer": a, "kind": kind})
        if kind in ("bip173:valid", "bip350:valid", "bip173:valid-b58", "bip16:valid-b58") and not yields_script(a):
            c.fail("a published valid address is rejected", {"op": "addr.to_script", "string": s, "answer": a, "kind": kind})
        if "1" in s:
            check_segwit_string(c, "corpus:" + kind, s.split("1")[0].lower(), s, must_reject=False)
    p = os.path.join(VERIF, "corpus", "C11.json")
    if os.path.exists(p):
        for e in json.load(open(p)):
            check_to_script(c, "corpus-file:" + e.get("kind", ""), e["string"])


def explore(c, tier):
    rng = c.rng
    quick = tier == "quick"
    nets = netparams()
    # ---- hash primitives of the driver vs hashlib
    import hashlib
    for _ in range(20):
        b = gen.rbytes(rng, rng.randrange(0, 150))
        c.expect("hash.sha256 " + hx(b), "ok " + hashlib.sha256(b).hexdigest(), {"bytes": hx(b)}, proven=False)
    # ---- base58
    for b in [b"", b"\x00", b"\x00" * 2, b"\x00\x01", b"\x01", b"\xff", b"\x00\xff", bytes(25), b"\x00" * 5 + b"\x3a", b"\x39", b"\x3a"]:
        check_b58_bytes(c, "boundary", b)
    for _ in range(1500 if quick else 12000):
        k, b = gen_b58_bytes(rng)
        check_b58_bytes(c, k, b)
    for s in ["", "1", "11", "2", "12", "z", "1z", "zz", "21", "211"]:
        check_b58_string(c, "boundary", s)
    for _ in range(1500 if quick else 12000):
        k, s = gen_b58_string(rng)
        check_b58_string(c, k, s)
        if rng.random() < 0.3:
            check_b58_string(c, k, s, check=True)
    for _ in range(1000 if quick else 8000):
        # mutated Base58Check strings
        b = gen.rbytes(rng, rng.randrange(0, 40))
        s = base58.encode_check(b)
        r = rng.random()
        if r < 0.5 and s:
            i = rng.randrange(len(s))
            s2 = s[:i] + rng.choice([ch for ch in B58 if ch != s[i]]) + s[i + 1:]
            kind = "subst"
        elif r < 0.7:
            s2 = s[:rng.randrange(0, len(s))] if s else s
            kind = "truncate"
        elif r < 0.9:
            s2 = s + rng.choice(B58)
            kind = "extend"
        else:
            s2 = "1" + s
            kind = "prepend-1"
        check_b58_string(c, "check:" + kind, s2, check=True)
    c.flush()
    # ---- convertbits / polymod
    for _ in range(2000 if quick else 15000):
        check_convertbits(c, rng)
    for _ in range(500 if quick else 4000):
        v = [rng.randrange(32) for _ in range(rng.randrange(0, 100))]
        c.expect("bech32.polymod " + nats(v), "ok %d" % bech32.bech32_polymod(v), {"values": v}, proven=False)
        c.count(("polymod", tuple(v)), nontrivial=len(v) > 6)
    c.flush()
    # ---- bech32: hrp x version 0..16 x program length 2..40 (plus out-of-range neighbours)
    hrps = sorted(set(p[3] for p in nets))
    grid = [(h, v, l) for h in hrps for v in range(0, 17) for l in range(2, 41)]
    if quick:
        # one full hrp (all versions x all lengths) plus a sample of the others
        h0 = rng.choice(hrps)
        grid = [g for g in grid if g[0] == h0] + rng.sample([g for g in grid if g[0] != h0], 300)
    for (h, v, l) in grid:
        check_segwit(c, "grid", h, v, gen.rbytes(rng, l))
    for _ in range(800 if quick else 6000):
        r = rng.random()
        if r < 0.3:
            h = "".join(rng.choice("abcdefghijklmnopqrstuvwxyz0123456789-_!~") for _ in range(rng.randrange(1, 12)))
            kind = "random-hrp"
        elif r < 0.4:
            h = rng.choice(["b1c", "1", "11", "a1", "1a"])
            kind = "hrp-with-1"
        elif r < 0.5:
            h = rng.choice(["BC", "Bc", "tB", "bC1"])
            kind = "upper-hrp"
        elif r < 0.55:
            h = ""
            kind = "empty-hrp"
        elif r < 0.65:
            h = "".join(rng.choice("abcdefgh") for _ in range(rng.randrange(20, 84)))
            kind = "long-hrp"
        elif r < 0.7:
            h = rng.choice(["b c", "b\x7fc", "bé", "\x20", "a\x00"])
            kind = "bad-hrp-char"
        else:
            h = rng.choice(hrps)
            kind = "edge"
        v = rng.choice([0, 1, 2, 16, 17, 18, 31, 32, 33, 100]) if rng.random() < 0.5 else rng.randrange(0, 17)
        l = rng.choice([0, 1, 2, 19, 20, 21, 31, 32, 33, 39, 40, 41, 42, 60]) if rng.random() < 0.6 else rng.randrange(0, 45)
        check_segwit(c, kind, h, v, gen.rbytes(rng, l))
    c.flush()
    # ---- addresses: five script types x all networks of embit's table
    EDGE = [lambda n: bytes(n), lambda n: b"\xff" * n, lambda n: bytes(range(n))]
    reps = 1 if quick else 5
    first = True
    hop_done = set()
    for rep in range(reps):
        for (name, pk, sh, hrp, nd) in nets:
            for kind in KINDS:
                n = 32 if kind in ("p2wsh", "p2tr") else 20
                payload = gen.rbytes(rng, n) if rng.random() < 0.8 else rng.choice(EDGE)(n)
                # exhaustive single substitutions: quick = one address per script type (network rotating), thorough = all in rep 0
                # exhaustive single substitutions: quick = every segwit (type, network) and one base58 type per network,
                # thorough = every (type, network) in the first two rounds
                ex1 = rep < (1 if quick else 2)
                check_address(c, name, pk, sh, hrp, nd, kind, payload, 400 if quick else 800, ex1)
                if kind in ("p2wpkh", "p2wsh", "p2tr"):
                    addr = Script(std_script(kind, payload)).address(nd)
                    key = (kind, hrp)
                    if key not in hop_done or not quick:
                        hop_done.add(key)
                        check_hop(c, addr, (addr, std_script(kind, payload)), search=not quick)
            c.flush()
    # more (network, type, payload) triples without the heavy mutation streams
    for _ in range(400 if quick else 3000):
        (name, pk, sh, hrp, nd) = rng.choice(nets)
        kind = rng.choice(KINDS)
        n = 32 if kind in ("p2wsh", "p2tr") else 20
        check_address(c, name, pk, sh, hrp, nd, kind, gen.rbytes(rng, n), 6, False)
    c.flush()
    # ---- Script.address on scripts that are not standard (must raise), and script_type
    for _ in range(1000 if quick else 6000):
        r = rng.random()
        kind = rng.choice(KINDS)
        n = 32 if kind in ("p2wsh", "p2tr") else 20
        s = bytearray(std_script(kind, gen.rbytes(rng, n)))
        if r < 0.3:
            s[rng.randrange(0, min(3, len(s)))] ^= 1 << rng.randrange(8)
        elif r < 0.45:
            s[-1] ^= 1 << rng.randrange(8)
        elif r < 0.6:
            s = s[:-1]
        elif r < 0.75:
            s = s + b"\x00"
        elif r < 0.85:
            s = bytearray([rng.choice([0x52, 0x53, 0x60, 0x50, 0x4f, 0x01]), n]) + gen.rbytes(rng, n)
        else:
            s = bytearray(gen.rbytes(rng, rng.randrange(0, 40)))
        s = bytes(s)
        (name, pk, sh, hrp, nd) = rng.choice(nets)
        a = i_address(s, nd)
        c.count(("nonstd", s), nontrivial=True)
        c.tally("address:nonstandard:" + ("raises" if a == "none" else "returns"))
        c.expect("addr.of_script %s %s %s %s" % (hx(pk), hx(sh), sx(hrp), hx(s)), a, {"script": hx(s)})
        c.expect("addr.type " + hx(s), "ok " + str(Script(s).script_type()), {"script": hx(s)})
        if classify_script(s) is None and a != "none":
            c.fail("Script.address returns an address for a non-standard script", {"op": "addr.of_script", "script": hx(s), "answer": a})
    # ---- hostile strings with valid checksums
    hostile_b58(c, rng, 3000 if quick else 15000)
    hostile_bech32(c, rng, 6000 if quick else 30000)
    c.flush()


def kf_cross_variant(rec):
    """C11-KF1: exactly the characterised BIP350 neighbour — four substitutions (version character and the symbols 45, 36,
    16 places from the end) turn a p2wsh address into a valid p2tr address and vice versa"""
    return (rec.get("kind") == "cross-variant-neighbour" and rec.get("characterised") is True and rec.get("hamming") == 4
            and (rec.get("origin_kind"), rec.get("got_kind")) in (("p2wsh", "p2tr"), ("p2tr", "p2wsh")))


def run(tier, seed):
    f = facts.addr_facts()
    c = Check(PROP, MODS, tier, seed)
    c.classifiers["cross_variant_neighbour"] = kf_cross_variant
    c.rule = ("(a) byte strings for base58 (empty, all-zero, zero-prefixed, 0xff.., random up to 300 bytes) and strings over/outside "
              "the alphabet; (b) (hrp, version, program) triples: the full grid network-hrp x version 0-16 x length 2-40 (sampled in "
              "quick) plus out-of-range neighbours and hostile hrps; (c) the five standard script types x every network of "
              "embit.networks.NETWORKS with random/edge payloads; (d) per address: every single-character substitution (all data "
              "positions x 31 symbols plus HRP positions; all positions x 57 for base58) on every (type, network) once in quick "
              "and twice in thorough, sampled 2-4 substitutions and bursts, truncation, extension, insertion, deletion, transposition, "
              "case, separator, HRP swaps; (e) strings with a VALID checksum that are not addresses: unknown HRP, wrong checksum "
              "variant for the version, bad program length, version > 16, bad padding, empty data, > 90 chars, Base58Check "
              "payloads of every length != 21 and unknown version bytes; (f) the constructed BIP350 cross-variant neighbour "
              "(must be the proved pattern; in thorough tier every weight-<=4 pattern is enumerated with embit's polymod); "
              "(g) per segwit address the all-upper-case and one mixed-case spelling. "
              "A case is distinct by content; non-trivial = every case except the empty byte string")
    c.assumptions = [
        "hash functions are parameters of the theorems; the driver's SHA-256 is validated against hashlib in the same run",
        "python str is modelled as a list of Unicode scalar values; surrogate code points are not generated",
        "all-uppercase bech32 addresses are rejected by embit's address_to_scriptpubkey (BIP173 says a decoder must accept them) "
        "while bech32.decode accepts them; the property text does not demand acceptance, the behaviour is proved of the model "
        "(C11X.to_script_iff_exact, upper_case_spelling) and checked on embit for every sampled segwit address",
        "address_to_scriptpubkey yields scripts for witness versions 0 and 1 only; valid v2-v16 addresses raise (part of "
        "C11X.to_script_iff)",
        "a string within <= 4 data-part substitutions of a valid segwit address (HRP untouched) that decodes is accepted by the "
        "check only when it is the characterised v0<->v1 neighbour of a p2wsh/p2tr address (C11X.cross_variant_iff: version "
        "character plus offsets 45, 36, 16 from the end; DESIGN Appendix D) and never for a p2wpkh address",
    ]
    c.extra["networks_extracted"] = [{"name": n[0], "p2pkh": n[1].hex(), "p2sh": n[2].hex(), "bech32": n[3]} for n in f["networks"]]
    c.build_and_audit()
    corpus(c)
    explore(c, tier)
    return c.finish(search=lambda cc: explore(cc, "quick"))


def replay(path):
    r = json.load(open(path))
    if isinstance(r, list):       # a corpus file: replay every entry
        for e in r:
            s = e["string"]
            print("%-28s %s" % (e.get("kind", ""), s))
            print("   impl               :", i_to_script(s))
            print("   model (fixed code) :", run_driver(["addr.to_script " + sx(s)])[0])
            print("   model (before fix) :", run_driver(["addr.to_script_old " + sx(s)])[0])
        return 0
    req = r.get("request")
    s = r.get("string")
    if s is not None:
        print("impl  address_to_scriptpubkey(%r): %s" % (s, i_to_script(s)))
        print("model (fixed code) :", run_driver(["addr.to_script " + sx(s)])[0])
        print("model (before fix) :", run_driver(["addr.to_script_old " + sx(s)])[0])
    if req:
        print("request:", req[:300])
        print("model  :", run_driver([req])[0][:2000])
        print("impl   :", str(r.get("impl"))[:2000])
    return 0
