"""C03 — transactions round-trip through the Bitcoin wire format.

Theorems: lean/EmbitModel/Props/C03.lean (model parser = inverse of the wire encoding, for all inputs).
Tie: every op below is run on embit and on the Lean model; since the model is *proved* to be the wire
format, any difference is a concrete failing input of the property."""
import json
import os

from core import Check, hx, VERIF
import gen

from embit.transaction import Transaction

PROP = "C03"
MODS = ["EmbitModel.Props.C03"]


def impl_parse(b):
    try:
        t = Transaction.parse(b)
    except Exception:
        return "none"
    return "ok " + gen.tx_tokens(t)


def check_bytes(c, kind, b, direct=True):
    """parser on arbitrary bytes: impl vs model, and the property predicate directly on impl."""
    res = impl_parse(b)
    c.count(("parse", b), nontrivial=True)
    c.tally("parse:" + kind + (":accepted" if res != "none" else ":rejected"))
    c.expect("tx.parse " + hx(b), res, {"kind": kind, "bytes": hx(b)[:20000]}, proven=True)
    if direct and res != "none":
        # accepted => re-encodes to the same bytes (property statement, no model involved)
        t = Transaction.parse(b)
        if t.serialize() != b:
            c.fail("accepted byte string does not re-encode to itself (%s)" % kind,
                   {"op": "tx.parse", "kind": kind, "bytes": hx(b)[:20000], "reencoded": hx(t.serialize())[:20000]})


def check_tx(c, tx, every_offset, budget):
    toks = gen.tx_tokens(tx.plain)
    held = gen.tx_tokens(tx)
    if held != toks:
        # "serialising any transaction": the object must hold the field values it was constructed from
        c.fail("a constructed transaction does not hold the values it was constructed from",
               {"op": "tx.construct", "tx": toks[:20000], "held": held[:20000]})
    ser = tx.serialize()
    if ser != gen.wire_of(tx.plain):
        c.fail("the serialisation is not the wire encoding of the values the transaction was constructed from",
               {"op": "tx.ser", "tx": toks[:20000], "wire": hx(ser)[:20000], "expected": hx(gen.wire_of(tx.plain))[:20000]})
    c.count(("tx", toks), nontrivial=len(tx.vin) > 1 or tx.is_segwit)
    c.tally("tx:" + gen.tx_shape(tx))
    info = {"tx": toks[:20000]}
    c.expect("tx.ser " + toks, "ok " + hx(ser), info)
    c.expect("tx.txid " + toks, "ok " + hx(tx.txid()), info)
    c.expect("tx.parse " + hx(ser), impl_parse(ser), info)
    # round trip on the implementation itself
    back = impl_parse(ser)
    if back != "ok " + toks:
        c.fail("serialise-then-parse is not the identity", {"op": "tx.roundtrip", "tx": toks[:20000], "parsed": back[:20000]})
    for kind, b in gen.mutations(c.rng, tx.plain, every_offset, budget):
        check_bytes(c, kind, b)
    c.sample({"tx": toks[:300], "wire": hx(ser)[:300]})


def corpus(c):
    p = os.path.join(VERIF, "corpus", "C03.json")
    if os.path.exists(p):
        for e in json.load(open(p)):
            check_bytes(c, "corpus:" + e.get("kind", ""), bytes.fromhex(e["bytes"]))


def explore(c, n, every_offset, budget, big):
    for k in range(n):
        tx = gen.gen_tx(c.rng, big=big)
        check_tx(c, tx, every_offset and k % 5 == 0, budget)
        if k % 50 == 49:
            c.flush()
    # unstructured random data
    for _ in range(n):
        check_bytes(c, "random", gen.rbytes(c.rng, c.rng.randrange(0, 80)))
    c.flush()


def run(tier, seed):
    c = Check(PROP, MODS, tier, seed)
    c.rule = ("seeded random well-formed transactions (1-6 inputs, 0-6 outputs, rarely 252-300; boundary 32/64-bit "
              "fields; script lengths across the 1/3/5-byte CompactSize boundaries) and wire-level mutations of their "
              "encodings (truncation, trailing bytes, non-minimal length prefixes, superfluous witness, bit/byte "
              "mutations) plus random byte strings; a case is distinct by content and non-trivial when the tx has >1 "
              "input or a witness, or is a mutated encoding")
    c.assumptions = ["9-byte CompactSize prefixes (lengths >= 2^32) are covered by the theorems only, not by the correspondence"]
    c.build_and_audit()
    corpus(c)
    if tier == "quick":
        explore(c, 120, False, 24, big=True)
    else:
        explore(c, 1500, True, 60, big=True)
    return c.finish(search=lambda cc: explore(cc, 400, True, 60, True))


def replay(path):
    r = json.load(open(path))
    b = bytes.fromhex(r["bytes"]) if r.get("bytes", "-") != "-" else b""
    print("impl :", impl_parse(b)[:2000])
    from core import run_driver
    print("model:", run_driver(["tx.parse " + hx(b)])[0][:2000])
    return 0
