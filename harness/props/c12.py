"""C12 — descriptors print/parse stably and derive the scripts BIP380-386 prescribe.

Theorems: lean/EmbitModel/Props/C12.lean. Tie to the code: descriptors are generated as independent Python object
trees (harness/dgen.py) over every wrapper x key form x derivation-step form x script expression, printed as
canonical and as variant text, and run through (a) embit's real parser / printer / derive / branch / to_public /
script builders and (b) the Lean model through the line protocol (`desc.*`: correspondence). Independently of the
model the property itself is evaluated on embit: print-parse stability (text, scripts, addresses), scripts equal to
an INDEPENDENT construction (plain Python from keys derived with embit's bip32 API, and the Lean spec
`spec.script`), to_public / branch invariance, checksums equal to the BIP380 spec (`spec.checksum`)."""
import json
import signal

from core import Check, run_driver
import dgen
import msgen

from embit.descriptor import Descriptor
from embit.descriptor.checksum import add_checksum, checksum
from embit.networks import NETWORKS

PROP = "C12"
MODS = ["EmbitModel.Props.C12", "EmbitModel.Props.C12X", "EmbitModel.Props.C12Y"]
HARD = dgen.HARD


class Timeout(Exception):
    pass


def _alarm(signum, frame):
    raise Timeout()


def guarded(f, *a):
    """value or None (ordinary exception); Timeout propagates as a harness-visible outcome"""
    signal.signal(signal.SIGALRM, _alarm)
    signal.setitimer(signal.ITIMER_REAL, 20.0)
    try:
        return f(*a)
    except Timeout:
        return "TIMEOUT"
    except Exception:
        return None
    finally:
        signal.setitimer(signal.ITIMER_REAL, 0)


def hx(s):
    return s.encode().hex() if s else "-"


def parse(text):
    return guarded(Descriptor.from_string, text)


def show(d):
    return guarded(str, d)


def parse_print(text):
    d = parse(text)
    if d is None or d == "TIMEOUT":
        return d, None
    return d, show(d)


def ok_text(s):
    return "none" if s is None else "ok " + hx(s)


def dump_obj(d):
    """the descriptor OBJECT, field for field (C12X.parse_print_idem is about the object, not only its text)"""
    from embit import ec, bip32
    from embit.descriptor.arguments import Key, KeyHash, Number, Raw
    from embit.descriptor.miniscript import Miniscript

    def key(k):
        kk = k.key
        if isinstance(kk, str):
            kv = ("raw", kk)
        elif isinstance(kk, bip32.HDKey):
            kv = ("hd", kk.to_base58())
        elif isinstance(kk, ec.PrivateKey):
            kv = ("priv", kk.wif())
        else:
            kv = ("pub", kk.sec().hex())
        o = None if k.origin is None else (k.origin.fingerprint.hex(), list(k.origin.derivation))
        a = None if k.allowed_derivation is None else [list(x) if isinstance(x, list) else x
                                                       for x in k.allowed_derivation.indexes]
        return (type(k).__name__, o, kv, a, bool(k.xonly_repr), bool(k.taproot))

    def arg(a):
        if isinstance(a, Key):
            return key(a)
        if isinstance(a, Number):
            return ("num", a.num)
        if isinstance(a, Raw):
            return ("raw", a.raw.hex())
        if isinstance(a, Miniscript):
            return ms(a)
        return ("?", repr(a))

    def ms(m):
        return None if m is None else (type(m).__name__, bool(m.taproot), [arg(a) for a in m.args])

    def tree(t):
        x = t.tree
        if x is None:
            return None
        if isinstance(x, (list, tuple)):
            return [tree(y) for y in x]
        return ("leaf", ms(x.miniscript), x.version)

    return repr((ms(d.miniscript), bool(d.sh), bool(d.wsh), None if d.key is None else key(d.key), bool(d.wpkh),
                 bool(d.taproot), tree(d.taptree)))


def scripts_of(d):
    """'ok spk redeem witness' of an (already derived) descriptor, or 'none'"""
    def f():
        spk = d.script_pubkey().data.hex()
        r = d.redeem_script()
        w = d.witness_script()
        return "ok %s %s %s" % (spk or "-", (r.data.hex() or "-") if r is not None else "None",
                                (w.data.hex() or "-") if w is not None else "None")
    return guarded(f) or "none"


def derive_scripts(d, i, b):
    dd = guarded(d.derive, i, b)
    if dd is None:
        return None, "none"
    return dd, scripts_of(dd)


def info_line(d):
    def f(g):
        v = guarded(g)
        return "raise" if v is None else str(v)
    return "ok %s %s %s %s" % (f(lambda: len(d.keys)), f(lambda: d.num_branches), guarded(d.scriptpubkey_type),
                               f(lambda: d.script_pubkey().data.hex() or "-"))


def addr(d):
    return guarded(lambda: d.address(NETWORKS["main"]))


def bs(b):
    return "None" if b is None else str(b)


# ---------------------------------------------------------------------------------------------- one descriptor

INDEX_POOL = [0, 1, 2 ** 31 - 1]


def index_branch_pairs(c, D, full=False):
    r = c.rng
    nb = D.nbranches
    idxs = list(INDEX_POOL) + [r.randrange(2, 2 ** 31 - 1)]
    if not full:
        idxs = r.sample(idxs, 2)
    pairs = []
    for n, i in enumerate(idxs):
        if n == 0 or full:
            pairs += [(i, b) for b in range(nb)] + [(i, None)]
        else:
            pairs.append((i, r.randrange(nb)))
    return pairs


def check_desc(c, D, kind, full=False):
    r = c.rng
    T = D.text()
    V = D.text(r)
    info = {"kind": kind, "text": T, "wrapper": D.wrapper}
    d, s = parse_print(T)
    c.count(("desc", T), nontrivial=D.ranged or D.wrapper not in ("pkh", "wpkh"))
    c.tally("wrapper:" + (D.wrapper + ("+tree" if D.tree else "")))
    for k in D.keys():
        c.tally("key:" + k.kind + ("+origin" if k.origin else ""))
        if k.steps:
            c.tally("steps:" + "".join("*" if st == "*" else ("S" if isinstance(st, tuple) else
                                                               ("h" if st >= HARD else "i")) for st in k.steps))
    c.expect("desc.parse " + hx(T), ok_text(s), info, proven=False)
    if d is None or d == "TIMEOUT":
        c.tally("rejected-generated")
        return None
    c.tally("accepted")
    c.sample({"text": T[:300]})
    # ---- print / parse stability
    if s != T:
        c.fail("printing a parsed canonical descriptor changes its text", dict(info, printed=s))
    d2, s2 = parse_print(s) if s is not None else (None, None)
    if s is not None and s2 != s:
        c.fail("parse(print(d)) prints differently", dict(info, printed=s, reprinted=s2))
    o1 = guarded(dump_obj, d)
    if d2 not in (None, "TIMEOUT") and (o1 is None or guarded(dump_obj, d2) != o1):
        c.fail("parse(print(parse t)) is not the same descriptor object as parse t", dict(info, printed=s))
    if V != T:
        dv, sv = parse_print(V)
        c.expect("desc.parse " + hx(V), ok_text(sv), dict(info, variant=V), proven=False)
        if sv != T:
            c.fail("a variant spelling does not normalise to the canonical text", dict(info, variant=V, printed=sv))
        elif dv in (None, "TIMEOUT") or guarded(dump_obj, dv) != o1:
            c.fail("a variant spelling parses to a different descriptor object than the canonical text",
                   dict(info, variant=V))
        c.tally("variant-texts")
    # ---- scripts at (i, b)
    pairs = index_branch_pairs(c, D, full)
    dpub = guarded(d.to_public)
    c.expect("desc.public " + hx(T), ok_text(show(dpub) if dpub is not None else None), info, proven=False)
    hardened = any(k.has_hardened_steps for k in D.keys())
    for (i, b) in pairs:
        bb = 0 if b is None else b
        inf = dict(info, index=i, branch=b)
        dd, sc = derive_scripts(d, i, b)
        c.expect("desc.script %s %d %s" % (hx(T), i, bs(b)), sc, inf, proven=False)
        c.count(("script", T, i, b), nontrivial=True)
        if sc == "none":
            c.fail("a generated descriptor cannot be derived", inf)
            continue
        spk = sc.split(" ")[1]
        # independent constructions
        py = guarded(D.py_script, i, bb)
        if py not in (None, "TIMEOUT"):
            want = "ok %s %s %s" % (py[0].hex(), py[1].hex() if py[1] is not None else "None",
                                    py[2].hex() if py[2] is not None else "None")
            c.tally("py-independent")
            if want != sc:
                c.fail("script differs from the independent construction from BIP32-derived keys",
                       dict(inf, impl=sc, independent=want))
        toks = guarded(D.spec_tokens, i, bb)
        if toks not in (None, "TIMEOUT"):
            c.expect("spec.script " + toks, "ok " + spk, dict(inf, tokens=toks[:4000]), proven=True)
        if b is not None and r.random() < 0.35:
            c.expect("desc.specscript %s %d %d" % (hx(T), i, b), "ok " + spk, inf, proven=True)
        # stability of scripts and addresses through print/parse
        if d2 not in (None, "TIMEOUT"):
            dd2, sc2 = derive_scripts(d2, i, b)
            if sc2 != sc:
                c.fail("the reparsed descriptor derives a different script", dict(inf, first=sc, second=sc2))
            elif dd is not None and dd2 is not None and addr(dd) != addr(dd2):
                c.fail("the reparsed descriptor derives a different address", inf)
        # to_public first
        if dpub is not None:
            ddp, scp = derive_scripts(dpub, i, b)
            if hardened:
                if scp != "none" and scp != sc:
                    c.fail("to_public() changes a derived script", dict(inf, private=sc, public=scp))
            elif scp != sc:
                c.fail("to_public() changes a derived script", dict(inf, private=sc, public=scp))
            if dd is not None:
                ddpp = guarded(dd.to_public)
                if ddpp is None or scripts_of(ddpp) != sc:
                    c.fail("to_public() after derive changes the script", inf)
        # branch first
        db = guarded(d.branch, b)
        if db is None:
            c.fail("branch() fails on an allowed branch", inf)
        else:
            _, scb = derive_scripts(db, i, None)
            if scb != sc:
                c.fail("branch() then derive() gives a different script", dict(inf, direct=sc, branched=scb))
    # ---- derived text, branch text, info
    (i, b) = pairs[0]
    dd = guarded(d.derive, i, b)
    c.expect("desc.derive %s %d %s" % (hx(T), i, bs(b)), ok_text(show(dd) if dd is not None else None), info,
             proven=False)
    bsel = r.choice([None] + list(range(D.nbranches)))
    db = guarded(d.branch, bsel)
    c.expect("desc.branch %s %s" % (hx(T), bs(bsel)), ok_text(show(db) if db is not None else None), info,
             proven=False)
    if dd is not None:
        # a derived descriptor prints and parses stably too
        sd = show(dd)
        d3, s3 = parse_print(sd) if sd else (None, None)
        if sd is None or s3 != sd:
            c.fail("a derived descriptor does not print/parse stably", dict(info, derived=sd, reparsed=s3))
        elif scripts_of(d3) != scripts_of(dd):
            c.fail("a derived descriptor reparsed gives another script", dict(info, derived=sd))
    c.expect("desc.info " + hx(T), info_line(d), info, proven=False)
    # out-of-range index / branch must not produce a script
    has_steps = any(k.steps for k in D.keys())
    has_set = any(isinstance(st, tuple) for k in D.keys() for st in (k.steps or []))
    for (i, b, must_fail) in [(2 ** 31, 0, has_steps), (0, D.nbranches, has_set)]:
        _, sc = derive_scripts(d, i, b)
        c.expect("desc.script %s %d %d" % (hx(T), i, b), sc, dict(info, index=i, branch=b), proven=False)
        if sc != "none" and must_fail:
            c.fail("derive() accepts a hardened index / a branch that is not allowed", dict(info, index=i, branch=b))
    return d


# ---------------------------------------------------------------------------------------------- checksums

def checksum_cases(c, texts, bad_queue):
    r = c.rng
    for T in texts:
        info = {"kind": "checksum", "text": T}
        cs = guarded(checksum, T)
        c.count(("checksum", T), nontrivial=True)
        c.expect("spec.checksum " + hx(T), ok_text(cs), info, proven=True)
        c.expect("desc.checksum " + hx(T), ok_text(cs), info, proven=False)
        if cs in (None, "TIMEOUT"):
            continue
        full = guarded(add_checksum, T)
        c.expect("desc.addchecksum " + hx(T), ok_text(full), info, proven=False)
        if full != T + "#" + cs:
            c.fail("add_checksum does not append '#' + checksum", dict(info, got=full))
        again = guarded(add_checksum, full)
        c.expect("desc.addchecksum " + hx(full), ok_text(again), info, proven=False)
        if again != full:
            c.fail("add_checksum is not idempotent", dict(info, first=full, second=again))
        c.expect("spec.check %s %s" % (hx(T), hx(cs)), "ok 1", info, proven=True)
        # a descriptor with its checksum parses to the same descriptor
        d0, s0 = parse_print(T)
        d1, s1 = parse_print(full)
        c.expect("desc.parse " + hx(full), ok_text(s1), info, proven=False)
        if d0 is not None and s1 != s0:
            c.fail("appending the correct checksum changes the parsed descriptor", dict(info, a=s0, b=s1))
        if d0 is None:
            continue
        # present but invalid checksums: BIP380 demands rejection
        alphabet = "qpzry9x8gf2tvdw0s3jn54khce6mua7l"
        j = r.randrange(8)
        wrong = cs[:j] + r.choice([ch for ch in alphabet if ch != cs[j]]) + cs[j + 1:]
        other = guarded(checksum, T[:-1] + ("]" if T[-1] != "]" else ")")) or "qqqqqqqq"
        variants = {"wrong-char": wrong, "truncated": cs[:7], "too-long": cs + r.choice(alphabet), "empty": "",
                    "other-descriptor": other, "not-alphabet": cs[:3] + "B" + cs[4:]}
        body_changed = None
        for name, suffix in variants.items():
            bad_queue.append((T, T + "#" + suffix, name, s0))
        # an error in the payload with the original checksum
        pos = T.find("/")
        if pos > 0 and T[pos + 1:pos + 2].isdigit():
            ch = T[pos + 1]
            body_changed = T[:pos + 1] + ("8" if ch != "8" else "9") + T[pos + 2:]
            if parse(body_changed) is not None:
                bad_queue.append((body_changed, body_changed + "#" + cs, "payload-error", show(parse(body_changed))))


def flush_bad_checksums(c, bad_queue):
    """texts whose '#' suffix is not the BIP380 checksum of their body: must be rejected (known finding C12-KF1)"""
    if not bad_queue or not c.driver_ok:
        return
    outs = run_driver(["desc.parse " + hx(full) for (_, full, _, _) in bad_queue])
    c.traces += len(outs)
    for (body, full, name, s_body), model in zip(bad_queue, outs):
        d, s = parse_print(full)
        impl = ok_text(s) if d is not None else "none"
        c.count(("badsum", full), nontrivial=True)
        c.tally("bad-checksum:" + name)
        suffix = full[len(body) + 1:]
        spec_valid = guarded(checksum, body) == suffix
        rec = {"kind": "bad-checksum", "variant": name, "text": full, "body": body, "impl": impl, "model": model,
               "body_parses_alone": s_body is not None, "suffix_is_checksum_of_body": spec_valid,
               "impl_equals_model": impl == model, "same_descriptor_as_body": s == s_body}
        if impl != model:
            c.mismatch("desc.parse", "desc.parse " + hx(full), impl, model, rec, False)
        if d is not None and not spec_valid:
            # outside C12 as worded (it speaks of APPENDED checksums and of print/parse stability): embit accepts a
            # text whose '#' suffix is not the BIP380 checksum and returns the descriptor of the body. Recorded as an
            # observation; what the property does demand is checked: the accepted text prints to the body with the
            # correct checksum and that printed text is stable.
            c.tally("observation:wrong-checksum-accepted")
            if s != s_body:
                c.fail("a text with a non-BIP380 checksum parses to a different descriptor than its body", rec)
    del bad_queue[:]


def kf1_classifier(rec):
    """C12-KF1: the body alone is a valid descriptor, the text after '#' is NOT its BIP380 checksum, embit accepts
    and returns exactly the descriptor of the body; the model (which follows the code) does the same"""
    return (rec.get("kind") == "bad-checksum" and rec.get("body_parses_alone") is True
            and rec.get("suffix_is_checksum_of_body") is False and rec.get("impl_equals_model") is True
            and rec.get("same_descriptor_as_body") is True and str(rec.get("impl", "")).startswith("ok "))


# ---------------------------------------------------------------------------------------------- hostile text

def hostile_texts(c, pool):
    """texts around the grammar's edges: compared with the model (accept/reject and printed form); when accepted,
    print/parse stability is demanded"""
    r = c.rng
    kx = pool.key(False, 1, want_hd=True, private_ok=False)
    kx.steps = None
    kp = pool.key(False, 1, want_hd=True)
    kp.kind, kp.steps, kp.version = "xprv", None, None
    X = kx.text()
    Xn = kx.key_text()
    Pv = kp.text()
    fp = "d34db33f"
    sec = pool.key(False, want_hd=False, private_ok=False)
    sec.kind, sec.origin = "sec", None
    S = sec.key_text()
    xo = S[2:]
    wif = dgen.KE("wif", priv=pool.privs[0]).key_text()
    res = [
        "wpkh(%s/<0;1>/*)" % X, "wpkh(%s/{0,1}/*)" % X, "wpkh(%s/{0,{1,2}}/*)" % X, "wpkh(%s/{}/*)" % X,
        "wpkh(%s/<>/*)" % X, "wpkh(%s/<0>/*)" % X, "wpkh(%s/{0}/*)" % X, "wpkh(%s/<0;1>/<2;3>/*)" % X,
        "wpkh(%s/{0,1}/{2,3}/*)" % X, "wpkh(%s/<0;1>/{2,3}/*)" % X, "wpkh(%s/*/*)" % X, "wpkh(%s/<0;*>/1)" % X,
        "wpkh(%s/<0;*>/*)" % X, "wpkh(%s/<*;*>)" % X, "wpkh(%s/<0;1/*)" % X, "wpkh(%s/{0,1/*)" % X,
        "wpkh(%s/0;1>/*)" % X, "wpkh(%s/<0,1>/*)" % X, "wpkh(%s/{0;1}/*)" % X, "wpkh(%s/<0;1}/*)" % X,
        "wpkh(%s/0h/*)" % X, "wpkh(%s/*h)" % X, "wpkh(%s/*h)" % Pv, "wpkh(%s/*')" % Pv, "wpkh(%s/0h/*)" % Pv,
        "wpkh(%s/0H/1'/<2h;3H>/*)" % Pv, "wpkh(%s/<0;1h>/*)" % X, "wpkh(%s/2147483648/*)" % X,
        "wpkh(%s/2147483647/*)" % X, "wpkh(%s/2147483648h/*)" % Pv, "wpkh(%s/2147483647h/*)" % Pv,
        "wpkh(%s/-1/*)" % X, "wpkh(%s/+1/*)" % X, "wpkh(%s/1_0/*)" % X, "wpkh(%s/ 1/*)" % X, "wpkh(%s/1 /*)" % X,
        "wpkh(%s/01/*)" % X, "wpkh(%s/0x1/*)" % X, "wpkh(%s/1__0/*)" % X, "wpkh(%s/_1/*)" % X, "wpkh(%s/1_/*)" % X,
        "wpkh(%s/)" % X, "wpkh(%s//0)" % X, "wpkh(%s/0/)" % X, "wpkh(%s/0//1)" % X, "wpkh(%s/h)" % Pv,
        "wpkh(%s/<0;1>/*/)" % X, "wpkh(%s/\t1/*)" % X, "wpkh(%s/1\n/*)" % X, "wpkh(%s/<0; 1>/*)" % X,
        "wpkh([%s]%s/0/*)" % (fp, Xn), "wpkh([%s/]%s/0/*)" % (fp, Xn), "wpkh([%s///]%s/0/*)" % (fp, Xn),
        "wpkh([%s//1]%s/0/*)" % (fp, Xn), "wpkh([%s/84H/0'/0h/]%s/0/*)" % (fp, Xn),
        "wpkh([%s]%s/0/*)" % (fp.upper(), Xn), "wpkh([%s/-1]%s/0/*)" % (fp, Xn), "wpkh([%s/-1h]%s/0/*)" % (fp, Xn),
        "wpkh([%s/4294967296]%s/0/*)" % (fp, Xn), "wpkh([%s/2147483648]%s/0/*)" % (fp, Xn),
        "wpkh([%s/2147483648h]%s/0/*)" % (fp, Xn), "wpkh([%s/+1/1_0/ 5]%s/0/*)" % (fp, Xn),
        "wpkh([%s/*]%s/0/*)" % (fp, Xn), "wpkh([%s/<0;1>]%s/0/*)" % (fp, Xn), "wpkh([%s/0]%s" % (fp, Xn),
        "wpkh([%s/0%s/0/*)" % (fp, Xn), "wpkh([%s0/0]%s/0/*)" % (fp, Xn), "wpkh([%s/0]%s/0/*)" % (fp[:6], Xn),
        "wpkh([%s/0]%s/0/*)" % (fp + "00", Xn), "wpkh([m/0]%s/0/*)" % Xn, "wpkh([%s/0][%s/1]%s/0/*)" % (fp, fp, Xn),
        "wpkh([%s/0h/h]%s)" % (fp, Xn), "wpkh([zz%s/0]%s)" % (fp[2:], Xn), "wpkh([%s/m/0]%s)" % (fp, Xn),
        "wpkh(%s)" % S, "wpkh(%s/0)" % S, "wpkh(%s/*)" % S, "wpkh(%s)" % S.upper(), "wpkh(%s)" % xo, "tr(%s)" % xo,
        "tr(%s)" % S, "tr(%s)" % xo.upper(), "tr(%s/0)" % xo, "tr([%s/1]%s)" % (fp, xo), "wpkh(%s)" % wif,
        "wpkh(%s/0)" % wif, "wpkh(%s)" % wif[:-1], "tr(%s)" % wif, "wpkh(%s)" % S[:-2], "wpkh(05%s)" % S[2:],
        "pkh(%s)" % X, "sh(wpkh(%s))" % X, "sh(wpkh (%s))" % X, "sh(wpkh%s)" % X, "sh( wpkh(%s))" % X,
        "sh(pkh(%s))" % X, "sh(pk(%s))" % X, "wsh(wpkh(%s))" % X, "wsh(pkh(%s))" % X, "sh(wsh(pkh(%s)))" % X,
        "pk(%s)" % X, "multi(1,%s)" % X, "wsh(sh(pk(%s)))" % X, "sh(sh(pk(%s)))" % X, "tr(%s,)" % X,
        "tr(%s,pk(%s))" % (X, X), "tr(%s,{pk(%s)})" % (X, X), "tr(%s,{pk(%s),pk(%s)})" % (X, X, S),
        "tr(%s,{{pk(%s)},pk(%s)})" % (X, X, S), "tr(%s,{pk(%s),pk(%s),pk(%s)})" % (X, X, S, xo),
        "tr(%s,{pk(%s),pk(%s)}" % (X, X, S), "tr(%s,{pk(%s);pk(%s)})" % (X, X, S), "tr(%s,{,pk(%s)})" % (X, X),
        "tr(%s,{pk(%s),})" % (X, X), "tr(%s,pk(%s)," % (X, X), "tr(%s,pk_k(%s))" % (X, X), "tr(,pk(%s))" % X,
        "tr(%s,multi(1,%s))" % (X, X), "tr(%s,multi_a(1,%s))" % (X, X), "wsh(multi_a(1,%s))" % X,
        "tr(%s/<0;1>/*,pk(%s/<2;3;4>/*))" % (X, X), "wsh(multi(1,%s/<0;1>/*,%s/<0;1;2>/*))" % (X, X),
        "wsh(multi(1,%s/<0;1>/*,%s/2/*))" % (X, X), "wsh(multi(2,%s/*))" % X, "wsh(multi(0,%s))" % X,
        "wsh(multi(1))" , "wsh(multi(,%s))" % X, "wsh(multi(01,%s))" % X, "wsh(multi(1,%s,))" % X,
        "wsh(multi(1 ,%s))" % X, "wsh(multi(1,%s)" % X, "wsh(multi(1,%s)))" % X, "wsh(multi(1,%s))x" % X,
        "wsh(multi(1,%s)) " % X, "wsh(multi(1,%s))#" % X, " wsh(multi(1,%s))" % X, "wsh (multi(1,%s))" % X,
        "wsh(thresh(1,pk(%s)))" % X, "wsh(thresh(1))", "wsh(thresh(1,pk(%s),))" % X, "wsh(a:pk(%s))" % X,
        "wsh(c:pk_k(%s))" % X, "wsh(:pk(%s))" % X, "wsh(c::pk_k(%s))" % X, "wsh(c:v:pk_k(%s))" % X,
        "wsh(cx:pk_k(%s))" % X, "wsh(C:pk_k(%s))" % X, "wsh(vc:pk_k(%s))" % X, "wsh(and_v(vc:pk_k(%s),older(5)))" % X,
        "wsh(and_v(v:pk(%s),older(05)))" % X, "wsh(and_v(v:pk(%s),older()))" % X,
        "wsh(and_v(v:pk(%s),older(5),older(6)))" % X, "wsh(and_v(v:pk(%s)))" % X, "wsh(older(5))", "wsh(older(5)",
        "wsh(older(+5))", "wsh(older(5 ))", "wsh(sha256(%s))" % ("ab" * 32), "wsh(sha256(%s))" % ("AB" * 32),
        "wsh(sha256(%s))" % ("ab" * 31), "wsh(sha256(%s))" % ("ab" * 33), "wsh(sha256(%s))" % ("zz" * 32),
        "wsh(and_v(v:pk(%s),sha256(%s)))" % (X, "cd" * 32), "wsh(and_v(v:pk(%s),hash160(%s)))" % (X, "cd" * 20),
        "wsh(pkh(%s))" % ("ab" * 20), "wsh(pkh(%s))" % ("zz" * 20), "wsh(pkh([%s/1]%s))" % (fp, "ab" * 20),
        "wsh(pkh(%s/0))" % ("ab" * 20), "wsh(pk(%s))" % ("ab" * 20), "wsh(pk_h(%s))" % ("AB" * 20), "", "w", "tr(",
        "tr(a)", "tr(ab)", "wsh(", "wsh()", "sh()", "pkh()", "wpkh(", "sh(wpkh", "sh(wpkh(", "wpkh(%s" % X,
        "wpkh(%s))" % X, "wpkh(%s)#" % X, "wpkh(%s)#x" % X, "wpkh(%s) #abc" % X, "wpkh(%s)\n" % X,
        "wpkh(%s,%s)" % (X, X), "wpkh((%s))" % X, "WPKH(%s)" % X, "wpkh[%s]" % X,
        # C12X: the spellings the normalisation theorem speaks of
        "tr(%s/<0;*>/1)" % X, "wpkh(%s/{*,5})" % X, "wsh(pk(%s/{0,*}))" % X, "wsh(multi(1,%s/<0;*>,%s/<1;2>/*))" % (X, X),
        "wsh(pkh([%s/0][%s))" % (fp, "a" * 39), "wsh(pkh([%s/0]%s))" % (fp, "zz" * 20), "wsh(pk_h(%s))" % ("Ab" * 20),
        "wsh(pkh([%s))" % ("a" * 39), "wpkh([%s/-0/-7h/007/0_0']%s/+0/00/-0/*)" % (fp, Xn),
        "wpkh([%s/ 1 /\t2\n]%s/{ 1,2 }/*)" % (fp.upper(), Xn), "wsh(:pk(%s))" % S.upper(), "tr(%s)" % xo.upper(),
        "wsh(and_v(v:pk(%s/{0,1}/*),older(0010)))" % X, "wsh(thresh(01,pk(%s)))" % X, "wsh(multi(001,%s))" % X,
        "wpkh(%s/2147483647'/*)" % Pv, "wpkh(%s/<0H;1';2h>/*)" % Pv,
    ]
    # audit-2 B-6: int() strips exactly 9..13 and 32 — NOT 0x1c..0x1f (which str.strip() would strip); every int()
    # field (step, origin step, set element; before/after the digits, before the hardened marker) with each of them,
    # and the six characters int() does strip in the same positions
    for ch in "\x1c\x1d\x1e\x1f\x0b\x0c\r":
        res += [
            "wpkh(%s/0%s)" % (X, ch), "wpkh(%s/%s0/*)" % (X, ch), "wpkh(%s/0%sh/*)" % (Pv, ch),
            "wpkh([%s/%s0]%s)" % (fp, ch, Xn), "wpkh([%s/44h/1%s]%s/0/*)" % (fp, ch, Xn),
            "wpkh(%s/<0%s;1>/*)" % (X, ch), "wpkh(%s/<0;%s1>/*)" % (X, ch), "wpkh(%s/{0,1%s}/*)" % (X, ch),
        ]
    # C13-F1 (fix keyhash-raw-hex): a 40-character argument of pkh / pk_h is a raw hash only when it is hex (either
    # case); before the fix any 40 characters were stored and script_pubkey() raised binascii.Error
    Z = "z" * 40
    raw40 = [Z, "ab" * 19 + "zz", "zz" + "ab" * 19, "ab" * 10 + "g" + "ab" * 9 + "a", "ab" * 19 + "a ", " " + "ab" * 19 + "a",
             "0x" + "ab" * 19, "ab" * 19 + "a\x1f", "ab" * 19 + "a_", "+" + "ab" * 19 + "a", "\u00e9" * 40, "ab" * 19 + "a\u00e9",
             "AB" * 20, "aBcDeF0123456789" * 2 + "AbCdEf01", "0123456789ABCDEF" * 2 + "abcdef00", "F" * 40, "0" * 40]
    for h in raw40:
        res += ["wsh(pkh(%s))" % h, "wsh(c:pk_h(%s))" % h]
    res += ["sh(wsh(pkh(%s)))" % Z, "sh(pkh(%s))" % Z, "tr(%s,pkh(%s))" % (X, Z), "tr(%s,pkh(%s))" % (X, "AB" * 20),
            "wsh(pkh([%s/1]%s))" % (fp, "Ab" * 20), "wsh(and_v(v:pkh(%s),pkh(%s)))" % ("AB" * 20, Z),
            "wsh(or_d(pkh(%s),pkh(%s)))" % ("ab" * 20, "AB" * 19 + "Ag"), "wsh(pkh(%s))" % ("z" * 39),
            "wsh(pkh(%s))" % ("z" * 41), "wsh(pk(%s))" % Z, "pkh(%s)" % Z, "wpkh(%s)" % Z]
    return res


def check_hostile(c, text, kind="hostile"):
    d, s = parse_print(text)
    info = {"kind": kind, "text": text}
    c.count((kind, text), nontrivial=False)
    c.expect("desc.parse " + hx(text), ok_text(s) if d is not None else "none", info, proven=False)
    if d is None or d == "TIMEOUT":
        c.tally(kind + ":rejected")
        return
    c.tally(kind + ":accepted")
    # C12X.parse_print_idem: every accepted text prints, the printed text is accepted and gives the SAME object
    if s is None:
        c.fail("an accepted descriptor cannot be printed", info)
        return
    d2, s2 = parse_print(s)
    if s2 != s:
        c.fail("an accepted text does not print/parse stably", dict(info, printed=s, reprinted=s2))
        return
    o1, o2 = guarded(dump_obj, d), guarded(dump_obj, d2)
    if o1 is None or o1 != o2:
        c.fail("parse(print(parse t)) is not the same descriptor object as parse t",
               dict(info, printed=s, first=str(o1)[:600], second=str(o2)[:600]))
        return
    c.tally("idem:object-identical")
    for (i, b) in [(0, None), (1, 0)]:
        _, sc = derive_scripts(d, i, b)
        c.expect("desc.script %s %d %s" % (hx(text), i, bs(b)), sc, dict(info, index=i, branch=b), proven=False)
        _, sc2 = derive_scripts(d2, i, b)
        if sc2 != sc:
            c.fail("an accepted text and its printed form derive different scripts", dict(info, printed=s, index=i))


def mutate_text(r, t):
    """one or two character-level edits biased to the structural characters"""
    special = "()[]{}<>,;/*#'hH:_ "
    for _ in range(r.choice([1, 1, 2])):
        if not t:
            break
        cand = [j for j, ch in enumerate(t) if ch in special]
        pos = r.choice(cand) if cand and r.random() < 0.7 else r.randrange(len(t))
        c = r.random()
        if c < 0.35:
            t = t[:pos] + t[pos + 1:]
        elif c < 0.7:
            t = t[:pos] + r.choice(special + "0123456789ab") + t[pos:]
        else:
            t = t[:pos] + r.choice(special + "019xz") + t[pos + 1:]
    return t


# ---------------------------------------------------------------------------------------------- validation of DescKeys

def validate_keys(c, pool):
    """Model/DescKeys.lean (Base58, BIP32, WIF, tweak — the driver's stand-in for C09-C11) against embit"""
    r = c.rng
    from embit import ec, bip32
    # the hypothesis `KeyCodec` of C12X (C10/C11: an accepted key text / SEC string re-encodes to itself), on embit
    for _ in range(12):
        node, _ = pool.account()
        for t in (node.to_base58(), node.to_public().to_base58()):
            c.count(("codec", t), nontrivial=True)
            if bip32.HDKey.from_base58(t).to_base58() != t or len(t) < 4 or t[0] == "[":
                c.fail("KeyCodec hypothesis: an accepted extended key text does not re-encode to itself", {"kind": "codec", "text": t})
    for p in pool.privs[:6]:
        for comp in (True, False):
            for net in ("main", "test"):
                t = ec.PrivateKey(p.secret, compressed=comp, network=NETWORKS[net]).wif()
                b = ec.PrivateKey(p.secret, compressed=comp).sec()
                c.count(("codec", t), nontrivial=True)
                if ec.PrivateKey.from_wif(t).wif() != t or ec.PublicKey.parse(b).sec() != b:
                    c.fail("KeyCodec hypothesis: an accepted WIF / SEC encoding does not re-encode to itself", {"kind": "codec", "text": t})
    c.tally("codec-hypothesis-checked")
    for _ in range(6):
        k = r.randrange(1, dgen.N)
        c.expect("dk.pub %d" % k, "ok " + ec.PrivateKey(k.to_bytes(32, "big")).sec().hex(), {"kind": "dk"}, proven=False)
    for _ in range(10):
        node, _ = pool.account()
        private = r.random() < 0.5
        path = [r.choice([0, 1, 2 ** 31 - 1, r.randrange(2 ** 31)]) + (HARD if private and r.random() < 0.3 else 0)
                for _ in range(r.choice([0, 1, 2, 3]))]
        base = node if private else node.to_public()
        ch = base.derive(path)
        pub_text = ch.to_public().to_base58() if private else "raise"
        c.expect("dk.xkey %s %d %s" % (hx(base.to_base58()), len(path), " ".join(map(str, path))),
                 "ok %s %s %s" % (hx(ch.to_base58()), ch.sec().hex(), hx(pub_text) if private else "raise"),
                 {"kind": "dk"}, proven=False)
    for p in pool.privs[:4]:
        for comp in (True, False):
            k = ec.PrivateKey(p.secret, compressed=comp, network=NETWORKS[r.choice(["main", "test"])])
            c.expect("dk.wif " + hx(k.wif()), "ok %s %s" % (hx(k.wif()), k.sec().hex()), {"kind": "dk"}, proven=False)
        h = bytes(r.getrandbits(8) for _ in range(r.choice([0, 32])))
        c.expect("dk.tweak %s %s" % (p.sec().hex(), h.hex() or "-"),
                 "ok " + p.get_public_key().taproot_tweak(h).xonly().hex(), {"kind": "dk"}, proven=False)
    # C12Y (`KeyCodec Concrete.ops`): the WIF decoder of the driver's key layer on payloads embit refuses or accepts at
    # the edges — version byte of no network (refused since fix 36f2981; the model accepted it until round 5), wrong
    # length, wrong compression flag, secret 0 / >= n — and on every accepted one the re-encoded text is the input
    from embit import base58
    def wif_answer(t):
        try:
            k = ec.PrivateKey.from_wif(t)
            return "ok %s %s" % (hx(k.wif()), k.sec().hex())
        except Exception:
            return "none"
    sec32 = pool.privs[0].secret
    payloads = [bytes([v]) + sec32 + fl for v in (0x42, 0x00, 0x81, 0x7f, r.randrange(256)) for fl in (b"", b"\x01")]
    payloads += [b"\x80" + sec32 + b"\x00", b"\x80" + sec32 + b"\x01\x01", b"\x80" + sec32[:31], b"\x80" + sec32[:31] + b"\x01",
                 b"\xef" + bytes(32) + b"\x01", b"\xef" + dgen.N.to_bytes(32, "big") + b"\x01",
                 b"\xef" + (dgen.N - 1).to_bytes(32, "big"), b"\x80" + (1).to_bytes(32, "big") + b"\x01", b"", b"\x80"]
    for pl in payloads:
        t = base58.encode_check(pl)
        a = wif_answer(t)
        c.expect("dk.wif " + hx(t), a, {"kind": "dk-wif-edge", "payload": pl.hex()}, proven=False)
        c.count(("dk-wif-edge", pl[:1].hex(), len(pl), a == "none"), nontrivial=True)
        if a != "none" and a.split()[1] != hx(t):
            c.fail("KeyCodec: an accepted WIF text does not re-encode to itself", {"kind": "codec", "text": t})
    c.tally("dk-wif-edge")


# ---------------------------------------------------------------------------------------------- run

def corpus(c, pool):
    """fixed cases first: descriptors from embit's own test-suite and BIP vectors"""
    texts = [
        "wpkh([d34db33f/84h/0h/0h]xpub6CUGRUonZSQ4TWtTMmzXdrXDtypWKiKrhko4egpiMZbpiaQL2jkwSB1icqYh2cfDfVxdx4df189oLKnC5fSwqPfgyP3hooxujYzAu3fDVmz/1/*)",
        "pkh(02c6047f9441ed7d6d3045406e95c07cd85c778e4b8cef3ca7abac09b95c709ee5)",
        "wpkh(02f9308a019258c31049344f85f89d5229b531c845836f99b08601f113bce036f9)",
        "sh(wpkh(03fff97bd5755eeea420453a14355235d382f6472f8568a18b2f057a1460297556))",
        "sh(wsh(multi(2,03a0434d9e47f3c86235477c7b1ae6ae5d3442d49b1943c2b752a68e2a47e247c7,03774ae7f858a9411e5ef4246b70c65aac5649980be5c17891bbec17895da008cb,03d01115d548e7561b15c38f004d734633687cf4419620095bc5b0f47070afe85a)))",
        "wsh(sortedmulti(1,xpub661MyMwAqRbcFW31YEwpkMuc5THy2PSt5bDMsktWQcFF8syAmRUapSCGu8ED9W6oDMSgv6Zz8idoc4a6mr8BDzTJY47LJhkJ8UB7WEGuduB/1/0/*,xpub69H7F5d8KSRgmmdJg2KhpAK8SR3DjMwAdkxj3ZuxV27CprR9LgpeyGmXUbC6wb7ERfvrnKZjXoUmmDznezpbZb7ap6r1D3tgFxHmwMkQTPH/0/0/*))",
        "tr(a34b99f22c790c4e36b2b3c2c35a36db06226e41c692fc82b8b56ac1c540c5bd)",
        "tr(xpub6CUGRUonZSQ4TWtTMmzXdrXDtypWKiKrhko4egpiMZbpiaQL2jkwSB1icqYh2cfDfVxdx4df189oLKnC5fSwqPfgyP3hooxujYzAu3fDVmz/86h/*)",
    ]
    for t in texts:
        check_hostile(c, t, kind="corpus")


def long_tap_leaves(c, pool):
    """tr(K, leaf) with leaf scripts whose length crosses the CompactSize boundary of the BIP341 leaf hash (252 / 253 /
    254+ bytes): and_v(v:multi_a(2, 7 or 8 keys), and_v(v:after(a), after(b))) compiles to 240 (274) + push(a) + 2 + push(b) + 1
    bytes; the random generator caps multis and never builds a leaf that long"""
    for nkeys, a, b in ((7, 70000, 500000001), (7, 500000000, 500000001), (7, 500000000, 70000), (8, 500000000, 500000001), (7, 16, 17)):
        try:
            keys = [pool.key(True, 2, private_ok=False) for _ in range(nkeys)]
            leaf = ("bin", "and_v", ("wrap", "v", ("multi", "multi_a", 2, keys)),
                    ("bin", "and_v", ("wrap", "v", ("time", "after", a)), ("time", "after", b)))
            D = dgen.Desc("tr", key=pool.key(True, 2, private_ok=False), tree=("leaf", leaf))
        except Exception as e:  # the generator's own data structures changed: say so instead of hiding it
            c.broken.append(("generator", "long_tap_leaves: %s: %s" % (type(e).__name__, e)))
            return
        check_desc(c, D, "long-tap-leaf", full=True)
    c.tally("long-tap-leaves")
    c.flush()


def generated(c, pool, n, full=False):
    texts = []
    for j in range(n):
        w = dgen.WRAPPERS[j % len(dgen.WRAPPERS)] if j < 4 * len(dgen.WRAPPERS) else None
        D = dgen.gen_desc(pool, wrapper=w)
        d = check_desc(c, D, "generated", full=full or j % 9 == 0)
        if d is not None and c.rng.random() < 0.5:
            texts.append(D.text())
        if c.rng.random() < 0.4:
            t = mutate_text(c.rng, D.text(c.rng))
            check_hostile(c, t, kind="mutated")
        if j % 40 == 39:
            c.flush()
    c.flush()
    return texts


def search(c):
    """failing-input search (broken obligation / correspondence): the property predicates on embit alone, larger
    budget; everything `check_desc` reports through `c.fail` or `proven=True` ops is independent of the model"""
    pool = dgen.Pool(c.rng)
    bad = []
    texts = generated(c, pool, 600, full=True)
    checksum_cases(c, texts[:150], bad)
    flush_bad_checksums(c, bad)


def run(tier, seed):
    c = Check(PROP, MODS, tier, seed)
    c.rule = ("descriptors generated over every wrapper (pkh, wpkh, sh-wpkh, sh, wsh, sh-wsh, tr key-only, tr with script "
              "trees up to depth 3) x key form (33/65-byte hex SEC, x-only, WIF compressed/uncompressed main/test, xpub/xprv "
              "with/without origin, SLIP132 versions) x derivation steps (none, fixed, wildcard, <a;b>/{a,b} sets of 2-3 "
              "branches, hardened steps with h/H/' on private keys) x script expression (multi, sortedmulti, pk, pkh, "
              "multi_a, sortedmulti_a, type-directed random miniscript depth 2-4); indices from {0,1,2^31-1,random} and "
              "2^31 (must fail); every branch and branch=None; canonical and variant spellings; character-level "
              "mutations; ~330 hand-written texts at the grammar's edges; checksum variants. Non-trivial = ranged or "
              "non-single-key descriptor, every (descriptor, index, branch) script evaluation, every checksum case")
    c.assumptions = ["ASCII text only (Python int() / str.strip() accept further Unicode digits and spaces)",
                     "key objects (BIP32 derivation, Base58, WIF, SEC, taproot tweak) are parameters of the theorems "
                     "(C09-C11); the driver instantiates them with Model/DescKeys.lean, validated each run (dk.* ops)",
                     "miniscript typing/compilation is C13's model, called on the expression with keys resolved"]
    c.build_and_audit()
    pool = dgen.Pool(c.rng)
    bad = []
    validate_keys(c, pool)
    corpus(c, pool)
    for t in hostile_texts(c, pool):
        check_hostile(c, t)
    c.flush()
    n = 420 if tier == "quick" else 4200
    texts = generated(c, pool, n)
    long_tap_leaves(c, pool)
    # BIP380's checksum is defined on every string over its input character set: random strings over all three
    # character groups in every length residue mod 3 (the last, incomplete group is encoded differently), besides
    # descriptor texts (which nearly always end in group-0 characters)
    CS = ("0123456789()[],'/*abcdefgh@:$%{}" "IJKLMNOPQRSTUVWXYZ&+-.;<=>?!^_|~" "ijklmnopqrstuvwxyzABCDEFGH`#\"\\ ")
    rand_texts = []
    for ln in list(range(1, 13)) * (2 if tier == "quick" else 12) + [c.rng.randrange(13, 200) for _ in range(30 if tier == "quick" else 400)]:
        t = "".join(c.rng.choice(CS) for _ in range(ln))
        # the tail in a chosen group, so that every (residue, group) pair occurs
        g = c.rng.randrange(3)
        tail = "".join(c.rng.choice(CS[32 * g:32 * g + 32]) for _ in range(min(ln, c.rng.choice([1, 2]))))
        # '#' separates a text from its checksum in add_checksum: not part of the bodies generated here
        rand_texts.append((t[:len(t) - len(tail)] + tail).replace("#", "H"))
    checksum_cases(c, texts[: (50 if tier == "quick" else 700)] + ["", "a", "ab", "abc", "abcd", "raw(deadbeef)",
                                                                    "é", "wpkh(\x7f)"] + rand_texts, bad)
    flush_bad_checksums(c, bad)
    c.flush()
    return c.finish(search=search)


def replay(path):
    r = json.load(open(path))
    info = r.get("info", r)
    text = info.get("variant") or info.get("text", "")
    print("text :", text[:1000])
    d, s = parse_print(text)
    print("impl parse/print:", ok_text(s) if d is not None else "none", "|", (s or "")[:600])
    lines = ["desc.parse " + hx(text)]
    i, b = info.get("index"), info.get("branch")
    if i is not None and d is not None:
        print("impl script     :", derive_scripts(d, i, b)[1])
        lines.append("desc.script %s %d %s" % (hx(text), i, bs(b)))
        if b is not None:
            lines.append("desc.specscript %s %d %d" % (hx(text), i, b))
    if info.get("tokens"):
        lines.append("spec.script " + info["tokens"])
    if r.get("request") and r["request"] not in lines:
        lines.append(r["request"])
    for l, o in zip(lines, run_driver(lines)):
        print("%-16s: %s" % (l.split(" ", 1)[0], o[:1000]))
    return 0
