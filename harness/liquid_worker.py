"""C18 differential runs against the REAL libsecp256k1-zkp (run in a sacrificial subprocess by props/c18.py).

usage: liquid_worker.py <seed> <ncases> [digest-only]
Prints one JSON object: {"cases": n, "failures": [...], "tally": {...}, "digest": hex, "samples": [...]}.
Every statement checked here is OBSERVED on the prebuilt C library, never proved:
  * blind(seed) is deterministic (two independent copies -> identical bytes);
  * every blinded output verifies, its range proof / surjection proof verify in the library and the range proof
    rewinds under the recipient blinding key to exactly (value, asset, vbf, abf);
  * commitments balance (pedersen_verify_tally over inputs / outputs incl. explicit ones and the fee);
  * every single-field falsification makes LOutputScope.verify() fail."""
import hashlib
import json
import os
import random
import sys
import time

HERE = os.path.dirname(os.path.abspath(__file__))
sys.path.insert(0, HERE)
from core import hx, REPO  # noqa: E402  (also puts the repo worktree first on sys.path)

from embit.util import secp256k1 as S  # noqa: E402
from embit.liquid.pset import PSET, LInputScope, LOutputScope  # noqa: E402
from embit.liquid.transaction import LTransactionOutput  # noqa: E402
from embit.liquid import slip77  # noqa: E402
from embit.script import Script  # noqa: E402
from embit.ec import PrivateKey  # noqa: E402

ZERO = bytes(32)
EDGE = [0, 1, 2, 2**52 - 1, 2**52 - 2, 10**8, 21 * 10**14]


def rb(rng, n):
    return bytes(rng.getrandbits(8) for _ in range(n))


def scalar(rng):
    return rb(rng, 32)


def flip(b, rng, lo=0):
    k = rng.randrange(lo, len(b))
    c = bytearray(b)
    c[k] ^= 1 << rng.randrange(8)
    return bytes(c)


def gen_case(rng, idx):
    """a balanced PSET (version 2): explicit and confidential inputs, blinded / unblinded outputs, fee"""
    nassets = rng.choice([1, 1, 2, 3])
    assets = [hashlib.sha256(b"asset" + rb(rng, 8)).digest() for _ in range(nassets)]
    mbk = PrivateKey(scalar(rng))
    p = PSET(version=2)
    p.tx_version = 2
    p.locktime = rng.choice([0, 1, 1000])
    nin = rng.randrange(1, 4)
    nassets = min(nassets, nin)  # every asset of an output must occur among the inputs
    assets = assets[:nassets]
    nconf = 0
    per_asset_in = {a: 0 for a in assets}
    ins = []
    for k in range(nin):
        a = assets[k % nassets] if k < nassets else rng.choice(assets)
        v = rng.choice(EDGE) if rng.random() < 0.4 else rng.getrandbits(rng.choice([8, 30, 50, 53]))
        if idx % 7 == 0 and k == 0:
            v = 0
        i = LInputScope({})
        i.txid = rb(rng, 32)
        i.vout = rng.randrange(0, 4)
        i.sequence = 0xFFFFFFFD
        spk = Script(b"\x00\x14" + rb(rng, 20))
        conf = rng.random() < 0.5
        if conf:
            nconf += 1
            abf, vbf = scalar(rng), scalar(rng)
            gen = S.generator_generate_blinded(a, abf)
            cmt = S.pedersen_commit(vbf, v, gen)
            i.witness_utxo = LTransactionOutput(S.generator_serialize(gen), S.pedersen_commitment_serialize(cmt), spk,
                                                PrivateKey(scalar(rng)).sec())
            # what LInputScope.unblind would have stored
            i.value, i.asset, i.asset_blinding_factor, i.value_blinding_factor = v, a, abf, vbf
        else:
            i.witness_utxo = LTransactionOutput(a, v, spk)
        per_asset_in[a] += v
        ins.append((a, v, conf))
        p.inputs.append(i)
    outs = []
    keys = {}
    nblinded = 0
    for a in assets:
        total = per_asset_in[a]
        nout = rng.randrange(1, 4)
        parts = []
        rest = total
        for k in range(nout - 1):
            r = rng.random()
            x = 0 if r < 0.12 else (1 if r < 0.22 and rest >= 1 else (min(rest, 2**52 - 1) if r < 0.36 else rng.randrange(0, min(rest, 2**52 - 1) + 1)))
            parts.append(x)
            rest -= x
        parts.append(rest)
        for x in parts:
            if x >= 2**52:
                kind = "explicit"  # outside the range-proof domain of the property
            else:
                kind = rng.choice(["blinded", "blinded", "explicit"])
            outs.append((a, x, kind))
    # the fee: an explicit output with empty script (asset 0)
    rng.shuffle(outs)
    for (a, x, kind) in outs:
        o = LOutputScope({})
        o.value = x
        o.asset = a
        o.blinder_index = 0
        if kind == "blinded":
            o.script_pubkey = Script(b"\x00\x14" + rb(rng, 20))
            bk = slip77.blinding_key(mbk, o.script_pubkey) if rng.random() < 0.5 else PrivateKey(scalar(rng))
            o.blinding_pubkey = bk.sec()
            keys[len(p.outputs)] = bk
            nblinded += 1
        else:
            o.script_pubkey = Script(b"" if rng.random() < 0.3 else b"\x00\x14" + rb(rng, 20))
        p.outputs.append(o)
    if nblinded == 0:
        o = p.outputs[0]
        o.script_pubkey = Script(b"\x00\x14" + rb(rng, 20))
        bk = PrivateKey(scalar(rng))
        o.blinding_pubkey = bk.sec()
        keys[0] = bk
        nblinded = 1
    # a zero-valued single blinded output with only explicit inputs would need the commitment 0*H + 0*G (the point at
    # infinity, which the library refuses): give such a case a second blinded output
    if nblinded == 1 and nconf == 0:
        j = list(keys)[0]
        if p.outputs[j].value == 0:
            for k2, o in enumerate(p.outputs):
                if k2 not in keys and o.value < 2**52:
                    o.script_pubkey = Script(b"\x00\x14" + rb(rng, 20))
                    bk = PrivateKey(scalar(rng))
                    o.blinding_pubkey = bk.sec()
                    keys[k2] = bk
                    break
            else:
                o = LOutputScope({})
                o.value, o.asset, o.blinder_index = 0, p.outputs[j].asset, 0
                o.script_pubkey = Script(b"\x00\x14" + rb(rng, 20))
                bk = PrivateKey(scalar(rng))
                o.blinding_pubkey = bk.sec()
                keys[len(p.outputs)] = bk
                p.outputs.append(o)
    return p, keys, mbk


RECORDED_MBK = "L2U2zGBgimb2vNee3bTw2y936PDJZXq3p7nMXEWuPP5MmpE1nCfv"


def recorded_unblindable():
    """the recorded PSETs of the repo tests whose confidential inputs unblind under the test's master blinding key"""
    import base64
    import re
    src = ""
    for f in ("test_liquid.py", "test_psetview.py"):
        src += open(os.path.join(REPO, "tests", "tests", f)).read()
    res = []
    mbk = PrivateKey.from_string(RECORDED_MBK)
    for s in sorted(set(re.findall(r'"(cHNldP8[A-Za-z0-9+/=]+)"', src))):
        raw = base64.b64decode(s)
        try:
            q = PSET.parse(raw)
            q.unblind(mbk)
            if q.inputs and all(i.value is not None for i in q.inputs):
                res.append(raw)
        except Exception:
            pass
    return res


def gen_recorded_case(rng, raw):
    """a recorded PSET with real confidential inputs (range proofs rewound by LInputScope.unblind): fresh recipient
    keys, values moved between outputs of one asset (towards 0, 1, 2^52-1), output kinds toggled"""
    mbk = PrivateKey.from_string(RECORDED_MBK)
    p = PSET.parse(raw)
    p.unblind(mbk)
    keys = {}
    by_asset = {}
    for j, o in enumerate(p.outputs):
        for f in ("value_commitment", "asset_commitment", "range_proof", "surjection_proof", "ecdh_pubkey",
                  "asset_blinding_factor", "value_blinding_factor", "asset_proof", "value_proof"):
            setattr(o, f, None)
        if o.script_pubkey.data != b"":
            by_asset.setdefault(o.asset, []).append(j)
    for a, js in by_asset.items():
        if len(js) >= 2:
            x, y = rng.sample(js, 2)
            tot = p.outputs[x].value + p.outputs[y].value
            nv = rng.choice([0, 1, 2**52 - 1, rng.randrange(0, min(tot, 2**52 - 1) + 1)])
            if nv <= tot and tot - nv < 2**52:
                p.outputs[x].value, p.outputs[y].value = nv, tot - nv
    for j, o in enumerate(p.outputs):
        if o.script_pubkey.data == b"":
            o.blinding_pubkey = None
            continue
        if o.value < 2**52 and rng.random() < 0.8:
            bk = PrivateKey(scalar(rng))
            o.blinding_pubkey = bk.sec()
            keys[j] = bk
        else:
            o.blinding_pubkey = None
    if not keys:
        j = [k for k, o in enumerate(p.outputs) if o.script_pubkey.data != b"" and o.value < 2**52][0]
        bk = PrivateKey(scalar(rng))
        p.outputs[j].blinding_pubkey = bk.sec()
        keys[j] = bk
    return p, keys, PrivateKey(scalar(rng))


def verify_out(o):
    try:
        return bool(o.verify())
    except Exception:
        return False


def tally(p):
    """commitments of inputs / outputs for pedersen_verify_tally"""
    ins, outs = [], []
    for i in p.inputs:
        u = i.utxo
        if not isinstance(u.value, int):
            ins.append(S.pedersen_commitment_parse(u.value))
        elif u.value != 0:  # an explicit amount v of asset a is the commitment v*H_a; v = 0 contributes nothing
            ins.append(S.pedersen_commit(ZERO, u.value, S.generator_generate(u.asset)))
    for o in p.outputs:
        if o.value_commitment:
            outs.append(S.pedersen_commitment_parse(o.value_commitment))
        elif o.value != 0:
            outs.append(S.pedersen_commit(ZERO, o.value, S.generator_generate(o.asset)))
    return ins, outs


FIELDS = ["value", "asset", "asset_blinding_factor", "value_blinding_factor", "asset_commitment", "value_commitment",
          "asset_proof", "value_proof"]


def falsifications(rng, p, j, proof_mode):
    """(name, {field: new value}) single-field falsifications of output j"""
    o = p.outputs[j]
    others = [x for k, x in enumerate(p.outputs) if k != j and x.value_commitment]
    res = []
    v = o.value
    res.append(("value+1", {"value": v + 1}))
    if v > 0:
        res.append(("value-1", {"value": v - 1}))
        res.append(("value:=0", {"value": 0}))
    else:
        res.append(("value:=1", {"value": 1}))
    res.append(("value:=random", {"value": (v + 1 + rng.getrandbits(40)) % 2**52}))
    res.append(("asset:=other", {"asset": hashlib.sha256(o.asset).digest()}))
    res.append(("asset:bitflip", {"asset": flip(o.asset, rng)}))
    res.append(("asset:=empty", {"asset": b""}))
    if not proof_mode:
        res.append(("abf:bitflip", {"asset_blinding_factor": flip(o.asset_blinding_factor, rng)}))
        res.append(("vbf:bitflip", {"value_blinding_factor": flip(o.value_blinding_factor, rng)}))
        res.append(("abf:=zero", {"asset_blinding_factor": ZERO}))
        res.append(("vbf:=zero", {"value_blinding_factor": ZERO}))
        res.append(("abf<->vbf", {"asset_blinding_factor": o.value_blinding_factor}))
    else:
        res.append(("value_proof:bitflip", {"value_proof": flip(o.value_proof, rng, len(o.value_proof) - 32)}))
        res.append(("asset_proof:bitflip", {"asset_proof": flip(o.asset_proof, rng, len(o.asset_proof) - 32)}))
        res.append(("value_proof:absent", {"value_proof": None}))
        res.append(("asset_proof:absent", {"asset_proof": None}))
        res.append(("value_proof:=range_proof", {"value_proof": o.range_proof}))
        if others:
            res.append(("value_proof:=other's", {"value_proof": others[0].value_proof}))
            res.append(("asset_proof:=other's", {"asset_proof": others[0].asset_proof}))
    # commitments: another valid commitment / generator
    gen = S.generator_parse(o.asset_commitment)
    res.append(("value_commitment:=commit(value+1)", {"value_commitment": S.pedersen_commitment_serialize(
        S.pedersen_commit(o.value_blinding_factor or hashlib.sha256(b"x").digest(), v + 1, gen))}))
    res.append(("asset_commitment:=other generator", {"asset_commitment": S.generator_serialize(
        S.generator_generate_blinded(o.asset, hashlib.sha256(o.asset_commitment).digest()))}))
    for x in others[:1]:
        if x.value_commitment != o.value_commitment:
            res.append(("value_commitment:=other's", {"value_commitment": x.value_commitment}))
        if x.asset_commitment != o.asset_commitment:
            res.append(("asset_commitment:=other's", {"asset_commitment": x.asset_commitment}))
    res.append(("value_commitment:parity", {"value_commitment": bytes([o.value_commitment[0] ^ 1]) + o.value_commitment[1:]}))
    res.append(("asset_commitment:parity", {"asset_commitment": bytes([o.asset_commitment[0] ^ 1]) + o.asset_commitment[1:]}))
    return res


def run(seed, ncases, digest_only=False):
    rng = random.Random(seed * 7919 + 18)
    failures = []
    tl = {}
    samples = []
    dig = hashlib.sha256()

    def t(name, k=1):
        tl[name] = tl.get(name, 0) + k

    def fail(what, info):
        if len(failures) < 20:
            failures.append({"what": what, "info": info})

    recorded = recorded_unblindable()
    for idx in range(ncases):
        if recorded and idx % 5 == 4:
            p, keys, mbk = gen_recorded_case(rng, recorded[(idx // 5) % len(recorded)])
            t("source:recorded")
        else:
            p, keys, mbk = gen_case(rng, idx)
            t("source:generated")
        seed32 = rb(rng, 32)
        raw0 = p.serialize()
        info = {"case": idx, "seed": hx(seed32), "pset": hx(raw0)}
        a = PSET.parse(raw0)
        b = PSET.parse(raw0)
        t0 = time.time()
        try:
            a.blind(seed32)
            b.blind(seed32)
        except Exception as e:
            fail("blind raised %s: %s" % (type(e).__name__, e), info)
            continue
        t("blind_ms", int((time.time() - t0) * 500))
        ra, rb_ = a.serialize(), b.serialize()
        dig.update(ra)
        t("cases")
        t("shape:in%d(conf%d)/out%d(blinded%d)" % (len(a.inputs), sum(1 for i in a.inputs if i.asset is not None), len(a.outputs), len(keys)))
        if ra != rb_:
            fail("blind(seed) is not deterministic: two copies give different bytes", info)
        if digest_only:
            continue
        c = PSET.parse(raw0)
        c.blind(hashlib.sha256(seed32).digest())
        if c.serialize() == ra:
            t("same-bytes-for-different-seed")
        # the blinded PSET survives serialisation
        a2 = PSET.parse(ra)
        if a2.serialize() != ra:
            fail("blinded PSET does not round-trip", info)
        # input generators for the surjection proofs
        in_gens = []
        for i in a.inputs:
            u = i.utxo
            in_gens.append(S.generator_generate(u.asset) if len(u.asset) == 32 else S.generator_parse(u.asset))
        for j, o in enumerate(a.outputs):
            if not verify_out(o):
                fail("verify() fails on an honestly blinded / explicit output %d" % j, info)
            if j not in keys:
                t("out:explicit")
                continue
            t("out:blinded")
            t("value:%s" % ("0" if o.value == 0 else "1" if o.value == 1 else "max" if o.value == 2**52 - 1 else "other"))
            # proofs verify in the library
            gen = S.generator_parse(o.asset_commitment)
            cmt = S.pedersen_commitment_parse(o.value_commitment)
            try:
                mn, mx = S.rangeproof_verify(o.range_proof, cmt, o.script_pubkey.data, gen)
                if not (mn <= o.value <= mx):
                    fail("range proof range [%d,%d] excludes the value" % (mn, mx), info)
            except Exception as e:
                fail("range proof of output %d does not verify: %s" % (j, e), info)
            try:
                if not S.surjectionproof_verify(S.surjectionproof_parse(o.surjection_proof), in_gens, gen):
                    fail("surjection proof of output %d does not verify" % j, info)
            except Exception as e:
                fail("surjection proof of output %d: %s" % (j, e), info)
            # corrupted proofs are refused by the library (observation on the library)
            try:
                S.rangeproof_verify(flip(o.range_proof, rng, len(o.range_proof) - 32), cmt, o.script_pubkey.data, gen)
                fail("library accepts a corrupted range proof", info)
            except Exception:
                t("lib:corrupted-rangeproof-refused")
            try:
                bad = S.surjectionproof_verify(S.surjectionproof_parse(flip(o.surjection_proof, rng, len(o.surjection_proof) - 32)), in_gens, gen)
            except Exception:
                bad = False
            if bad:
                fail("library accepts a corrupted surjection proof", info)
            else:
                t("lib:corrupted-surjectionproof-refused")
            # unblinds exactly under the recipient key, and not under another key
            try:
                r = o.blinded_vout.unblind(keys[j].secret)
                if (r[0], r[1], r[2], r[3]) != (o.value, o.asset, o.value_blinding_factor, o.asset_blinding_factor):
                    fail("unblinding output %d gives other data than was blinded" % j, dict(info, got=[r[0], hx(r[1]), hx(r[2]), hx(r[3])]))
                else:
                    t("unblind:exact")
            except Exception as e:
                fail("output %d does not unblind under the recipient key: %s" % (j, e), info)
            try:
                o.blinded_vout.unblind(hashlib.sha256(keys[j].secret).digest())
                fail("output %d unblinds under a wrong key" % j, info)
            except Exception:
                t("unblind:wrong-key-refused")
        # next-transaction view: the blinded outputs as confidential inputs, unblinded by LInputScope.unblind
        for j, o in enumerate(a.outputs):
            if j in keys and keys[j].secret == slip77.blinding_key(mbk, o.script_pubkey).secret:
                i = LInputScope({})
                i.txid, i.vout, i.sequence = bytes(32), j, 0
                i.witness_utxo = o.blinded_vout
                i.range_proof = o.range_proof
                try:
                    i.unblind(mbk)
                except Exception as e:
                    fail("LInputScope.unblind raised %s" % e, info)
                if (i.value, i.asset, i.value_blinding_factor, i.asset_blinding_factor) != (
                        o.value, o.asset, o.value_blinding_factor, o.asset_blinding_factor):
                    fail("LInputScope.unblind of a blinded output gives other data", info)
                else:
                    t("input-unblind:exact")
        # balance
        try:
            ti, to = tally(a)
            if not S.pedersen_verify_tally(ti, to):
                fail("commitments do not balance", info)
            else:
                t("tally:balanced")
            # control: the tally does notice an extra unit
            to2 = list(to) + [S.pedersen_commit(ZERO, 1, S.generator_generate(a.outputs[0].asset))]
            if S.pedersen_verify_tally(ti, to2):
                t("tally:control-failed")
        except Exception as e:
            fail("tally raised %s" % e, info)
        # falsifications
        js = sorted(keys)
        if len(js) > 2:
            js = rng.sample(js, 2)
        for j in js:
            for proof_mode in (False, True):
                o = a.outputs[j]
                saved = {f: getattr(o, f) for f in FIELDS}
                if proof_mode:
                    o.asset_blinding_factor = None
                    o.value_blinding_factor = None
                    if not verify_out(o):
                        fail("verify() with proofs only (no blinding factors) fails on output %d" % j, info)
                base = {f: getattr(o, f) for f in FIELDS}
                for name, change in falsifications(rng, a, j, proof_mode):
                    for f, v in change.items():
                        setattr(o, f, v)
                    ok = verify_out(o)
                    for f, v in base.items():
                        setattr(o, f, v)
                    t("falsify:%s:%s" % ("proofs" if proof_mode else "factors", name.split(":")[0]))
                    if ok:
                        fail("verify() accepts output %d after falsification '%s' (%s mode)" % (j, name, "proof" if proof_mode else "factor"),
                             dict(info, falsification=name, blinded=hx(ra), output=j, mode="proof" if proof_mode else "factor",
                                  new={k: (hx(v) if isinstance(v, bytes) else v) for k, v in change.items()}))
                for f, v in saved.items():
                    setattr(o, f, v)
        if len(samples) < 3:
            samples.append({"inputs": len(a.inputs), "outputs": [(o.value, o.blinding_pubkey is not None) for o in a.outputs], "seed": hx(seed32)})
    return {"cases": tl.get("cases", 0), "failures": failures, "tally": tl, "digest": dig.hexdigest(), "samples": samples}


if __name__ == "__main__":
    seed = int(sys.argv[1])
    n = int(sys.argv[2])
    res = run(seed, n, len(sys.argv) > 3)
    sys.stdout.write(json.dumps(res) + "\n")
