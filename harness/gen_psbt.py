"""Seeded generator of PSBT byte strings (v0 and v2) over every BIP174/370/371 field type, built with the
independent byte builder in gen.py (never through embit's PSBT serialiser), plus single-step corruptions."""
import hashlib

import gen
from gen import cs, kv, rbytes

from embit import ec
from embit.script import Script
from embit.transaction import Transaction, TransactionInput, TransactionOutput

_KEYS = None


def key_pool():
    """valid SEC / x-only public keys (test data; produced with embit's own key class)"""
    global _KEYS
    if _KEYS is None:
        _KEYS = []
        for i in range(1, 25):
            d = hashlib.sha256(b"verif-key-%d" % i).digest()
            pk = ec.PrivateKey(d)
            pub = pk.get_public_key()
            sec = pub.sec()
            pub.compressed = False
            usec = pub.sec()
            _KEYS.append((sec, usec, sec[1:]))
    return _KEYS


def dsha(b):
    return hashlib.sha256(hashlib.sha256(b).digest()).digest()


def gen_deriv(rng):
    return rbytes(rng, 4) + b"".join(gen.pick_u32(rng).to_bytes(4, "little") for _ in range(rng.randrange(0, 6)))


def gen_tap_deriv(rng):
    n = rng.randrange(0, 4)
    return cs(n) + b"".join(rbytes(rng, 32) for _ in range(n)) + gen_deriv(rng)


def gen_xpub(rng):
    sec = rng.choice(key_pool())[0]
    depth = rng.randrange(0, 6)
    ver = rng.choice([bytes.fromhex("0488b21e"), bytes.fromhex("043587cf"), bytes.fromhex("04b24746"), bytes.fromhex("02575483")])
    if depth == 0:
        return ver + b"\x00" + b"\x00" * 4 + b"\x00" * 4 + rbytes(rng, 32) + sec
    return ver + bytes([depth]) + rbytes(rng, 4) + gen.pick_u32(rng).to_bytes(4, "big") + rbytes(rng, 32) + sec


def unknown_pairs(rng, scope):
    """keys embit has no handler for in this scope"""
    out = []
    for _ in range(rng.choice([0, 0, 1, 2, 3])):
        r = rng.random()
        if r < 0.12:
            # keys that only share their first byte with a known single-byte key type
            t = rng.choice({"in": [0x0e, 0x0f, 0x10], "out": [0x03, 0x04], "global": [0x02, 0x03, 0x04, 0x05, 0xfb]}[scope])
            k = bytes([t]) + rbytes(rng, rng.choice([1, 1, 2]))
        elif r < 0.3:
            k = b"\xfc" + cs(4) + b"test" + bytes([rng.randrange(4)]) + rbytes(rng, rng.randrange(0, 4))
        elif r < 0.6:
            t = rng.choice({"in": [0x09, 0x0a, 0x0b, 0x0c, 0x0d, 0x11, 0x12, 0x13, 0x19, 0x20, 0xf0],
                            "out": [0x06, 0x08, 0x09, 0x20, 0xf0], "global": [0x06, 0x07, 0x10, 0xf0, 0xfa]}[scope])
            k = bytes([t]) + rbytes(rng, rng.choice([0, 0, 1, 32]))
        else:
            t = rng.randrange(0x21, 0xf0)
            k = bytes([t]) + rbytes(rng, rng.randrange(0, 5))
        if k not in [x[0] for x in out]:
            out.append((k, rbytes(rng, rng.choice([0, 1, 4, 33, 300]))))
    return out


def gen_prev_tx(rng, n_out_min):
    t = gen.gen_tx(rng, max_in=3, max_out=4)
    while len(t.vout) < n_out_min:
        t.vout.append(TransactionOutput(gen.pick_u64(rng), Script(gen.gen_script(rng))))
    return t


def gen_psbt(rng, version=None, big=False, rich=True):
    """returns dict(bytes, version, tx (embit Transaction container), in_maps, out_maps, global_extra, prevs)"""
    if version is None:
        version = rng.choice([0, 2])
    tx = gen.gen_tx(rng, segwit=False, big=big, max_in=4, max_out=4)
    for i in tx.vin:
        i.script_sig = Script(b"")
    keys = key_pool()
    in_maps, out_maps, prevs = [], [], []
    small = len(tx.vin) > 10
    for inp in tx.vin:
        m = []
        prev = None
        if rich and not small:
            kind = rng.choice(["nwu", "wu", "both", "none", "nwu", "wu"])
            if kind in ("nwu", "both"):
                prev = gen_prev_tx(rng, 1)
                idx = rng.randrange(len(prev.vout))
                inp.txid = prev.txid()
                inp.vout = idx
                m.append((b"\x00", prev.serialize()))
            if kind in ("wu", "both"):
                if prev is not None:
                    o = prev.vout[inp.vout]
                    m.append((b"\x01", o.serialize()))
                else:
                    m.append((b"\x01", gen.pick_u64(rng).to_bytes(8, "little") + cs(22) + b"\x00\x14" + rbytes(rng, 20)))
            used = set()
            for _ in range(rng.choice([0, 0, 1, 2])):
                k = rng.choice(keys)[rng.choice([0, 0, 1])]
                if k not in used:
                    used.add(k)
                    m.append((b"\x02" + k, rbytes(rng, rng.choice([64, 71, 72, 73]))))
            if rng.random() < 0.3:
                m.append((b"\x03", rng.choice([0, 1, 2, 3, 0x81, 0x83, 0xFFFFFFFF]).to_bytes(4, "little")))
            if rng.random() < 0.3:
                m.append((b"\x04", gen.gen_script(rng)))
            if rng.random() < 0.3:
                m.append((b"\x05", gen.gen_script(rng)))
            used = set()
            for _ in range(rng.choice([0, 0, 1, 3])):
                k = rng.choice(keys)[rng.choice([0, 0, 1])]
                if k not in used:
                    used.add(k)
                    m.append((b"\x06" + k, gen_deriv(rng)))
            if rng.random() < 0.15:
                m.append((b"\x07", gen.gen_script(rng)))
            if rng.random() < 0.15:
                w = gen.gen_witness(rng)
                m.append((b"\x08", cs(len(w)) + b"".join(cs(len(x)) + x for x in w)))
            used = set()
            for _ in range(rng.choice([0, 0, 0, 1, 2])):
                k = rng.choice(keys)[2] + rbytes(rng, 32)
                if k not in used:
                    used.add(k)
                    m.append((b"\x14" + k, rbytes(rng, rng.choice([64, 65]))))
            used = set()
            for _ in range(rng.choice([0, 0, 0, 1, 2])):
                # same draws as before; a repeated control block would be a duplicate key (an invalid PSBT)
                kv = (b"\x15" + bytes([0xc0 + rng.randrange(2)]) + rng.choice(keys)[2] + rbytes(rng, 32 * rng.randrange(3)),
                      gen.gen_script(rng) + b"\xc0")
                if kv[0] not in used:
                    used.add(kv[0])
                    m.append(kv)
            used = set()
            for _ in range(rng.choice([0, 0, 0, 1, 2])):
                k = rng.choice(keys)[2]
                if k not in used:
                    used.add(k)
                    m.append((b"\x16" + k, gen_tap_deriv(rng)))
            if rng.random() < 0.2:
                m.append((b"\x17", rng.choice(keys)[2]))
            if rng.random() < 0.2:
                m.append((b"\x18", rbytes(rng, 32)))
        m += unknown_pairs(rng, "in")
        rng.shuffle(m)
        in_maps.append(m)
        prevs.append(prev)
    for out in tx.vout:
        m = []
        if rich and not small:
            if rng.random() < 0.3:
                m.append((b"\x00", gen.gen_script(rng)))
            if rng.random() < 0.3:
                m.append((b"\x01", gen.gen_script(rng)))
            used = set()
            for _ in range(rng.choice([0, 0, 1, 2])):
                k = rng.choice(keys)[rng.choice([0, 0, 1])]
                if k not in used:
                    used.add(k)
                    m.append((b"\x02" + k, gen_deriv(rng)))
            if rng.random() < 0.2:
                m.append((b"\x05", rng.choice(keys)[2]))
            used = set()
            for _ in range(rng.choice([0, 0, 0, 1, 2])):
                k = rng.choice(keys)[2]
                if k not in used:
                    used.add(k)
                    m.append((b"\x07" + k, gen_tap_deriv(rng)))
        m += unknown_pairs(rng, "out")
        rng.shuffle(m)
        out_maps.append(m)
    g = []
    if rich:
        used = set()
        for _ in range(rng.choice([0, 0, 1, 2])):
            x = gen_xpub(rng)
            if x not in used:
                used.add(x)
                g.append((b"\x01" + x, gen_deriv(rng)))
                if rng.random() < 0.35:
                    # the same extended key under another SLIP-132 version prefix is a different (legal) key
                    y = rng.choice([bytes.fromhex("0488b21e"), bytes.fromhex("049d7cb2"), bytes.fromhex("04b24746"),
                                    bytes.fromhex("043587cf"), bytes.fromhex("045f1cf6")]) + x[4:]
                    if y not in used:
                        used.add(y)
                        g.append((b"\x01" + y, gen_deriv(rng)))
        if version == 0 and rng.random() < 0.15:
            g.append((b"\xfb", (0).to_bytes(4, "little")))
        g += unknown_pairs(rng, "global")
        rng.shuffle(g)
    b = gen.build_psbt(tx, version, in_maps, out_maps, g, explicit_seq=rng.random() < 0.7, rng=rng)
    return {"bytes": b, "version": version, "tx": tx, "in_maps": in_maps, "out_maps": out_maps, "global": g, "prevs": prevs}


# ---- independent KV splitter (the property's view of "the pairs of the original") -----------------

def read_cs(b, p):
    c = b[p]
    if c < 0xFD:
        return c, p + 1
    w = {0xFD: 2, 0xFE: 4, 0xFF: 8}[c]
    if p + 1 + w > len(b):
        raise ValueError("eof")
    return int.from_bytes(b[p + 1:p + 1 + w], "little"), p + 1 + w


def split_scopes(b):
    """[scope0(global), scope1, ...] each a list of (key, value); raises on malformed framing"""
    if b[:5] != b"psbt\xff":
        raise ValueError("magic")
    p = 5
    scopes = []
    cur = []
    while p < len(b):
        l, p = read_cs(b, p)
        if l == 0:
            scopes.append(cur)
            cur = []
            continue
        if p + l > len(b):
            raise ValueError("eof")
        k = b[p:p + l]
        p += l
        l, p = read_cs(b, p)
        if p + l > len(b):
            raise ValueError("eof")
        cur.append((k, b[p:p + l]))
        p += l
    if cur:
        raise ValueError("no final separator")
    return scopes


def corruptions(rng, g):
    """single-step structural corruptions of a valid PSBT -> (kind, bytes, must_reject)"""
    b = g["bytes"]
    scopes = split_scopes(b)
    n = len(b)
    yield ("bad-magic", b"psbt\xfe" + b[5:], True)
    yield ("bad-magic2", b"psbT" + b[4:], True)
    for k in sorted({0, 4, 5, 6, n - 1, n - 2, rng.randrange(n), rng.randrange(n), rng.randrange(n)}):
        yield ("truncate", b[:k], True)
    yield ("trailing", b + b"\x00", True)
    # duplicate a pair inside its scope
    nonempty = [i for i, s in enumerate(scopes) if s]
    for _ in range(3):
        if not nonempty:
            break
        si = rng.choice(nonempty)
        pi = rng.randrange(len(scopes[si]))
        sc = [list(s) for s in scopes]
        sc[si].insert(rng.randrange(len(sc[si]) + 1), scopes[si][pi])
        # the kind says where the duplicated key lives (global / in / out) and its type byte: the memory-saving reader
        # modes skip some input fields unread, see props/c04.py `skipped_in_mode`
        where = "global" if si == 0 else ("in" if si <= len(g["tx"].vin) else "out")
        tag = ":%s:%02x" % (where, scopes[si][pi][0][0])
        yield ("dup-pair" + tag, b"psbt\xff" + b"".join(b"".join(kv(k, v) for k, v in s) + b"\x00" for s in sc), True)
        # same key, different value
        sc = [list(s) for s in scopes]
        k0, v0 = scopes[si][pi]
        sc[si].append((k0, v0 + b"\x01" if len(v0) < 8 else v0[:-1]))
        yield ("dup-key" + tag, b"psbt\xff" + b"".join(b"".join(kv(k, v) for k, v in s) + b"\x00" for s in sc), True)
    # drop a separator
    for _ in range(2):
        si = rng.randrange(len(scopes))
        parts = [b"".join(kv(k, v) for k, v in s) + (b"" if i == si else b"\x00") for i, s in enumerate(scopes)]
        yield ("drop-separator", b"psbt\xff" + b"".join(parts), True)
    # extra separator (an extra empty scope)
    yield ("extra-scope", b + b"\x00", True)
    # tx in v2 / missing tx in v0
    utx = gen.raw_tx(2, [(bytes(32), 0, b"", 0xFFFFFFFF)], [(1, b"\x51")], 0)
    if g["version"] == 2:
        sc = [list(s) for s in scopes]
        sc[0].insert(0, (b"\x00", utx))
        yield ("tx-in-v2", b"psbt\xff" + b"".join(b"".join(kv(k, v) for k, v in s) + b"\x00" for s in sc), True)
    else:
        sc = [list(s) for s in scopes]
        sc[0] = [p for p in sc[0] if p[0] != b"\x00"]
        yield ("missing-tx", b"psbt\xff" + b"".join(b"".join(kv(k, v) for k, v in s) + b"\x00" for s in sc), True)
        # duplicated global tx
        sc = [list(s) for s in scopes]
        sc[0].append([p for p in scopes[0] if p[0] == b"\x00"][0])
        yield ("dup-tx", b"psbt\xff" + b"".join(b"".join(kv(k, v) for k, v in s) + b"\x00" for s in sc), True)
        # signed global tx (non-empty scriptSig / witness) is not an unsigned tx -- BIP174: must be rejected
        tx = g["tx"]
        stx = gen.raw_tx(tx.version, [(i.txid, i.vout, b"\x51" if n == 0 else b"", i.sequence) for n, i in enumerate(tx.vin)],
                         [(o.value, o.script_pubkey.data) for o in tx.vout], tx.locktime)
        sc = [list(s) for s in scopes]
        sc[0] = [(k, stx if k == b"\x00" else v) for k, v in sc[0]]
        yield ("signed-global-tx", b"psbt\xff" + b"".join(b"".join(kv(k, v) for k, v in s) + b"\x00" for s in sc), True)
        utx0 = [v for k, v in scopes[0] if k == b"\x00"][0]
        wtx = utx0[:4] + b"\x00\x01" + utx0[4:-4] + b"\x01\x01\x07" + b"\x00" * (len(tx.vin) - 1) + utx0[-4:]
        sc[0] = [(k, wtx if k == b"\x00" else v) for k, v in scopes[0]]
        yield ("witness-global-tx", b"psbt\xff" + b"".join(b"".join(kv(k, v) for k, v in s) + b"\x00" for s in sc), True)
    # reorder scopes (swap two input scopes / input with output): still well-formed framing, may be valid
    if len(scopes) > 2:
        i, j = rng.sample(range(1, len(scopes)), 2)
        sc = list(scopes)
        sc[i], sc[j] = sc[j], sc[i]
        yield ("swap-scopes", b"psbt\xff" + b"".join(b"".join(kv(k, v) for k, v in s) + b"\x00" for s in sc), None)
    # known single-byte key types with a longer key; fixed-width values with a wrong length; malformed values
    si = rng.randrange(1, len(scopes)) if len(scopes) > 1 else 0
    for (k, v) in [(b"\x17\xaa", key_pool()[0][2]), (b"\x18\x00", rbytes(rng, 32)), (b"\x03\x01", b"\x01\x00\x00\x00"),
                   (b"\x0f", b"\x01"), (b"\x10", b"\x01\x00"), (b"\x0e", rbytes(rng, 31)), (b"\x03", b"\x01"),
                   (b"\x06" + b"\x02" + b"\x00" * 32, gen_deriv(rng)), (b"\x02" + rbytes(rng, 33), b"\x30"),
                   (b"\x06" + key_pool()[1][0], rbytes(rng, 7)), (b"\x16" + key_pool()[2][2], b"\x05" + rbytes(rng, 40)),
                   (b"\x14" + rbytes(rng, 10), b"\x00" * 64), (b"\x08", b"\x02\x01"), (b"\x01", b"\x00" * 5),
                   (b"\x00", utx + b"\x00"), (b"\x00", utx[:-1])]:
        sc = [list(s) for s in scopes]
        sc[si].append((k, v))
        yield ("odd-field:" + k[:2].hex(), b"psbt\xff" + b"".join(b"".join(kv(a, c) for a, c in s) + b"\x00" for s in sc), None)
    # random bit flips
    for _ in range(6):
        c = bytearray(b)
        c[rng.randrange(n)] ^= 1 << rng.randrange(8)
        yield ("bitflip", bytes(c), None)
