"""C08V — the REAL code of py_secp256k1.ecdsa_sign_recoverable (and everything it calls: ecdsa_sign, ECKey.set,
ECKey.sign_ecdsa, ecdsa_signature_parse_der, EllipticCurve.mul / affine, modinv) run over the toy curve
y^2 = x^3 + 7 over F_43 (31 points, G = (2, 12)) instead of secp256k1, with the nonce fixed.

On secp256k1 a nonce point with x(R) >= n cannot be produced through the public API (ecdsa_sign_recoverable takes no
nonce function, and finding such a nonce is a discrete logarithm); on the toy curve 14 of the 30 nonce points have
x >= n. Only module-level CONSTANTS of embit.util.key are replaced (SECP256K1, SECP256K1_G, SECP256K1_ORDER,
SECP256K1_ORDER_HALF, SECP256K1_FIELD_SIZE) and deterministic_k (constant nonce) — no line of the signing code.
Protocol: stdin = JSON list of [k, z, d]; stdout = JSON list of answers ("ok <hex>" / "none").
Run in a subprocess (the patched module must not leak into the harness process).
"""
import json
import os
import sys

sys.path.insert(0, os.path.join(os.environ.get("EMBIT_REPO", "/repo"), "src"))
from embit.util import key as _key            # noqa: E402
from embit.util import py_secp256k1 as py     # noqa: E402

_key.SECP256K1_FIELD_SIZE = 43
_key.SECP256K1 = _key.EllipticCurve(43, 0, 7)
_key.SECP256K1_G = (2, 12, 1)
_key.SECP256K1_ORDER = 31
_key.SECP256K1_ORDER_HALF = 31 // 2


def main():
    out = []
    for k, z, d in json.load(sys.stdin):
        _key.deterministic_k = lambda secret, z_, extra_data=None, _k=k: _k
        try:
            out.append("ok " + py.ecdsa_sign_recoverable(z.to_bytes(32, "big"), d.to_bytes(32, "big")).hex())
        except Exception:  # noqa
            out.append("none")
    json.dump(out, sys.stdout)


main()
