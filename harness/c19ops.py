"""C19 — the operations of a history, executed on the real embit code.

A history is a list of JSON operations over a pool of named slots. This module is imported by the fork server
(`c19zygote.py`, a pristine interpreter that has imported embit and executed nothing) and by the harness (for the
metadata only). `meta(op)` says which slots an operation reads, which slot it defines and which slots it is allowed
to modify; everything else in the pool must be unchanged after the call. `canon(obj)` is what can be observed of an
object through its public interface."""
import hashlib
from io import BytesIO


class Bad(Exception):
    """an operation that cannot be carried out on the current pool (wrong slot type): not a property failure"""


# ------------------------------------------------------------------------------------------------ observation

def _hex(f):
    try:
        return f().hex()
    except Exception as e:  # observation itself raises: that is an observation
        return "raise:" + type(e).__name__


def canon(o):
    from embit.transaction import Transaction
    from embit.script import Witness, Script
    from embit.psbt import PSBT, PSBTScope
    from embit.psbtview import PSBTView
    from embit.bip32 import HDKey
    from embit.descriptor import Descriptor
    from embit.descriptor.arguments import Key, AllowedDerivation
    from embit.descriptor.taptree import TapTree, TapLeaf
    from embit.ec import PrivateKey, PublicKey
    if isinstance(o, (bytes, bytearray)):
        return {"t": type(o).__name__, "hex": bytes(bytearray(o)).hex()}
    if isinstance(o, list):
        return {"t": "list", "v": [canon(x) for x in o]}
    if isinstance(o, (int, str, bool)) or o is None:
        return {"t": "v", "v": o}
    if isinstance(o, Transaction):
        return {"t": "tx", "ser": _hex(o.serialize), "nin": len(o.vin), "nout": len(o.vout)}
    if isinstance(o, Witness):
        return {"t": "wit", "ser": _hex(o.serialize)}
    if isinstance(o, PSBT):
        return {"t": "psbt", "ser": _hex(o.serialize)}
    if isinstance(o, PSBTScope):
        return {"t": "scope", "cls": type(o).__name__, "ser": _hex(o.serialize)}
    if isinstance(o, PSBTView):
        # never move the stream position while observing
        gv = getattr(o.stream, "getvalue", None)
        return {"t": "view", "ser": gv().hex() if gv else None, "offset": o.offset, "nin": o.num_inputs,
                "nout": o.num_outputs}
    if isinstance(o, HDKey):
        try:
            return {"t": "hd", "b58": o.to_base58(), "fp": o.my_fingerprint.hex()}
        except Exception as e:
            return {"t": "hd", "b58": "raise:" + type(e).__name__}
    if isinstance(o, (PrivateKey, PublicKey)):
        return {"t": "eckey", "ser": _hex(o.serialize)}
    if isinstance(o, Key):
        return {"t": "key", "str": _str(o), "taproot": o.taproot, "ser": _hex(o.serialize)}
    if isinstance(o, Descriptor):
        return {"t": "desc", "str": _str(o), "spk": _hex(lambda: o.script_pubkey().data),
                "keys_taproot": [k.taproot for k in o.keys]}
    if isinstance(o, TapLeaf):
        return {"t": "leaf", "str": _str(o), "ser": _hex(o.serialize), "keys_taproot": [k.taproot for k in o.keys]}
    if isinstance(o, TapTree):
        return {"t": "tree", "str": _str(o), "tweak": _hex(o.tweak), "keys_taproot": [k.taproot for k in o.keys]}
    if isinstance(o, AllowedDerivation):
        return {"t": "ad", "idx": repr(o.indexes), "str": _str(o)}
    if isinstance(o, Script):
        return {"t": "script", "hex": o.data.hex()}
    if isinstance(o, tuple):
        return {"t": "tuple", "v": [canon(x) for x in o]}
    # any other object (generic operations `g_*` over classes / functions the translator points at): a picture of its
    # attributes without addresses, class-level containers seen through the instance included
    import sharedstate
    return {"t": "generic", "v": sharedstate.stable(o)}


def _str(o):
    try:
        return str(o)
    except Exception as e:
        return "raise:" + type(e).__name__


def result_canon(r):
    if isinstance(r, (bytes, bytearray)):
        return r.hex()
    if isinstance(r, (int, str, bool)) or r is None:
        return r
    if isinstance(r, (list, tuple)):
        return [result_canon(x) for x in r]
    if isinstance(r, dict):
        return r
    return canon(r)


# ------------------------------------------------------------------------------------------------ helpers

def h32(tag):
    return hashlib.sha256(("c19-" + str(tag)).encode()).digest()


def mk_script(seed):
    """deterministic scriptPubKey from a small seed: kind by seed % 4"""
    from embit.script import Script
    d = h32("spk%d" % seed)
    k = seed % 4
    if k == 0:
        return Script(b"\x00\x14" + d[:20])
    if k == 1:
        return Script(b"\x51\x20" + d)
    if k == 2:
        return Script(b"\x76\xa9\x14" + d[:20] + b"\x88\xac")
    return Script(b"\x00\x20" + d)


def mk_input(seed):
    from embit.transaction import TransactionInput
    return TransactionInput(h32("txid%d" % seed), seed % 5, sequence=0xFFFFFFFF - (seed % 3))


def mk_output(seed):
    from embit.transaction import TransactionOutput
    return TransactionOutput(1000 + 17 * seed, mk_script(seed))


def root_key(seed):
    from embit.bip32 import HDKey
    return HDKey.from_seed(h32("seed%d" % seed) + h32("seed%d'" % seed))


H = 0x80000000


def build_psbt(seed, kinds):
    """a signable PSBT: one input per entry of `kinds` ('wpkh' | 'tr' | 'pkh'), keys derived from root_key(seed)"""
    from embit.transaction import Transaction, TransactionInput, TransactionOutput
    from embit.psbt import PSBT, DerivationPath
    from embit import script
    root = root_key(seed)
    fp = root.my_fingerprint
    vin, meta = [], []
    for i, kind in enumerate(kinds):
        purpose = {"wpkh": 84, "tr": 86, "pkh": 44}[kind]
        path = [H + purpose, H, H, 0, i]
        k = root.derive(path)
        pub = k.get_public_key()
        if kind == "wpkh":
            spk = script.p2wpkh(pub)
        elif kind == "tr":
            spk = script.p2tr(pub)
        else:
            spk = script.p2pkh(pub)
        vin.append(TransactionInput(h32("prev%d-%d" % (seed, i)), i))
        meta.append((kind, path, pub, spk, 50000 + 1000 * i + seed))
    vout = [TransactionOutput(40000 + seed, mk_script(seed)), TransactionOutput(7000, mk_script(seed + 1))]
    tx = Transaction(2, vin, vout, 0)
    p = PSBT(tx)
    for i, (kind, path, pub, spk, amount) in enumerate(meta):
        inp = p.inputs[i]
        if kind == "pkh":
            prev = Transaction(2, [TransactionInput(h32("pp%d-%d" % (seed, i)), 0)],
                               [TransactionOutput(1, mk_script(9))] * i + [TransactionOutput(amount, spk)], 0)
            inp.non_witness_utxo = prev
            inp.txid = prev.txid()
            inp.vout = i
        else:
            inp.witness_utxo = TransactionOutput(amount, spk)
        if kind == "tr":
            inp.taproot_bip32_derivations[pub] = ([], DerivationPath(fp, path))
            inp.taproot_internal_key = pub
        else:
            inp.bip32_derivations[pub] = DerivationPath(fp, path)
    return p


DESCRIPTORS = [
    "wpkh([{fp}/84h/0h/0h]{xpub}/<0;1>/*)",
    "pkh({xpub}/0/*)",
    "sh(wpkh({xpub}/<0;1>/*))",
    "wsh(sortedmulti(1,{xpub}/<0;1>/*,{xpub2}/<0;1>/*))",
    "tr({xpub}/<0;1>/*)",
    "tr({xpub}/<0;1>/*,pk({xpub2}/<0;1>/*))",
    "wsh(and_v(v:pk({xprv}/<0;1>/*),older(10)))",
    "wpkh({xprv}/0/*)",
]


def descriptor_text(which, seed):
    r1 = root_key(seed)
    r2 = root_key(seed + 1)
    a = r1.derive([H + 84, H, H])
    b = r2.derive([H + 84, H, H])
    return DESCRIPTORS[which % len(DESCRIPTORS)].format(
        fp=r1.my_fingerprint.hex(), xpub=a.to_public().to_base58(), xpub2=b.to_public().to_base58(), xprv=a.to_base58())


# ------------------------------------------------------------------------------------------------ operations
# every entry: name -> (meta, run);  meta(op) -> (reads, defines, may_modify)

OPS = {}


def op(name, reads=(), defines=None, modifies=()):
    def deco(fn):
        OPS[name] = (tuple(reads), defines, tuple(modifies), fn)
        return fn
    return deco


def meta(o):
    reads, defines, modifies, _ = OPS[o["op"]]
    return ([o[r] for r in reads if o.get(r) is not None], (o.get(defines) if defines else None),
            [o[m] for m in modifies if o.get(m) is not None])


_ARGS = []


def arg(x):
    """registers a mutable object built from the literals of an operation and handed to the library as an argument:
    it must look the same after the call"""
    _ARGS.append((x, canon(x)))
    return x


def need(w, o, field, *types):
    v = w.get(o[field])
    if v is None or (types and not isinstance(v, types)):
        raise Bad("%s: slot %s is not a %s" % (o["op"], o[field], "/".join(t.__name__ for t in types)))
    return v


# ---- construction with default arguments

@op("tx_default", defines="dst")
def _(w, o):
    from embit.transaction import Transaction
    w[o["dst"]] = Transaction()


@op("witness_default", defines="dst")
def _(w, o):
    from embit.script import Witness
    w[o["dst"]] = Witness()


@op("scope_default", defines="dst")
def _(w, o):
    from embit import psbt
    from embit.liquid import pset
    cls = {"base": psbt.PSBTScope, "in": psbt.InputScope, "out": psbt.OutputScope,
           "lin": pset.LInputScope, "lout": pset.LOutputScope}[o["kind"]]
    w[o["dst"]] = cls()


@op("psbt_default", defines="dst")
def _(w, o):
    from embit.psbt import PSBT
    w[o["dst"]] = PSBT()


@op("ad_default", defines="dst")
def _(w, o):
    from embit.descriptor.arguments import AllowedDerivation
    w[o["dst"]] = AllowedDerivation()


# ---- construction from explicit data

@op("tx_new", defines="dst")
def _(w, o):
    from embit.transaction import Transaction
    w[o["dst"]] = Transaction(o["version"], [mk_input(s) for s in o["vin"]], [mk_output(s) for s in o["vout"]], o["locktime"])


@op("witness_new", defines="dst")
def _(w, o):
    from embit.script import Witness
    w[o["dst"]] = Witness(arg([bytes.fromhex(x) for x in o["items"]]))


@op("bytearray_new", defines="dst")
def _(w, o):
    w[o["dst"]] = bytearray(bytes.fromhex(o["hex"]))


@op("hd_new", defines="dst")
def _(w, o):
    w[o["dst"]] = root_key(o["seed"])


@op("key_new", defines="dst")
def _(w, o):
    from embit.descriptor.arguments import Key
    r = root_key(o["seed"]).derive([H + 86, H, H])
    if o["kind"] == "xpub":
        w[o["dst"]] = Key.from_string(r.to_public().to_base58() + "/<0;1>/*")
    elif o["kind"] == "xprv":
        w[o["dst"]] = Key.from_string(r.to_base58() + "/0/*")
    else:
        w[o["dst"]] = Key.from_string(r.get_public_key().to_string())


@op("desc_parse", defines="dst")
def _(w, o):
    from embit.descriptor import Descriptor
    w[o["dst"]] = Descriptor.from_string(descriptor_text(o["which"], o["seed"]))


@op("psbt_build", defines="dst")
def _(w, o):
    w[o["dst"]] = build_psbt(o["seed"], o["kinds"])


# ---- construction from another object of the pool

@op("psbt_from_tx", reads=("src",), defines="dst")
def _(w, o):
    from embit.psbt import PSBT
    from embit.transaction import Transaction
    w[o["dst"]] = PSBT(need(w, o, "src", Transaction))


@op("reparse", reads=("src",), defines="dst")
def _(w, o):
    from embit.transaction import Transaction
    from embit.psbt import PSBT
    src = need(w, o, "src", Transaction, PSBT)
    w[o["dst"]] = type(src).parse(src.serialize())


@op("psbt_tx", reads=("src",), defines="dst")
def _(w, o):
    from embit.psbt import PSBT
    w[o["dst"]] = need(w, o, "src", PSBT).tx


@op("view_of", reads=("src",), defines="dst")
def _(w, o):
    from embit.psbt import PSBT
    from embit.psbtview import PSBTView
    w[o["dst"]] = PSBTView.view(BytesIO(need(w, o, "src", PSBT).serialize()))


@op("desc_from_key", reads=("key",), defines="dst")
def _(w, o):
    from embit.descriptor import Descriptor
    from embit.descriptor.arguments import Key
    k = need(w, o, "key", Key)
    kind = o["kind"]
    w[o["dst"]] = Descriptor(key=k, taproot=(kind == "tr"), wpkh=(kind == "wpkh"))


@op("taptree_from_key", reads=("key",), defines="dst")
def _(w, o):
    from embit.descriptor.arguments import Key
    from embit.descriptor.miniscript import Pk
    from embit.descriptor.taptree import TapTree, TapLeaf
    k = need(w, o, "key", Key)
    w[o["dst"]] = TapTree(TapLeaf(Pk(k, taproot=True)))


# ---- derivation: new objects, sources unchanged

@op("hd_derive", reads=("src",), defines="dst")
def _(w, o):
    from embit.bip32 import HDKey
    w[o["dst"]] = need(w, o, "src", HDKey).derive(arg(list(o["path"])))


@op("hd_to_public", reads=("src",), defines="dst")
def _(w, o):
    from embit.bip32 import HDKey
    w[o["dst"]] = need(w, o, "src", HDKey).to_public()


@op("hd_taproot_tweak", reads=("src",), defines="dst")
def _(w, o):
    from embit.bip32 import HDKey
    w[o["dst"]] = need(w, o, "src", HDKey).taproot_tweak(bytes.fromhex(o["h"]))


@op("desc_derive", reads=("src",), defines="dst")
def _(w, o):
    from embit.descriptor import Descriptor
    from embit.descriptor.arguments import Key
    w[o["dst"]] = need(w, o, "src", Descriptor, Key).derive(o["idx"], o["branch"])


@op("desc_branch", reads=("src",), defines="dst")
def _(w, o):
    from embit.descriptor import Descriptor
    from embit.descriptor.arguments import Key
    w[o["dst"]] = need(w, o, "src", Descriptor, Key).branch(o["branch"])


@op("desc_to_public", reads=("src",), defines="dst")
def _(w, o):
    from embit.descriptor import Descriptor
    from embit.descriptor.arguments import Key
    w[o["dst"]] = need(w, o, "src", Descriptor, Key).to_public()


@op("ad_branch", reads=("src",), defines="dst")
def _(w, o):
    from embit.descriptor.arguments import AllowedDerivation
    w[o["dst"]] = need(w, o, "src", AllowedDerivation).branch(o["branch"])


# ---- mutation of ONE object (the caller's own act; digests caches are invalidated as the API prescribes)

@op("tx_append_vin", modifies=("obj",))
def _(w, o):
    from embit.transaction import Transaction
    t = need(w, o, "obj", Transaction)
    t.vin.append(mk_input(o["seed"]))
    t.clear_cache()


@op("tx_append_vout", modifies=("obj",))
def _(w, o):
    from embit.transaction import Transaction
    t = need(w, o, "obj", Transaction)
    t.vout.append(mk_output(o["seed"]))
    t.clear_cache()


@op("tx_set_locktime", modifies=("obj",))
def _(w, o):
    from embit.transaction import Transaction
    t = need(w, o, "obj", Transaction)
    t.locktime = o["locktime"]
    t.clear_cache()


@op("unknown_set", modifies=("obj",))
def _(w, o):
    from embit.psbt import PSBT, PSBTScope
    x = need(w, o, "obj", PSBT, PSBTScope)
    tgt = x
    if isinstance(x, PSBT) and o.get("scope"):
        lst = x.inputs if o["scope"][0] == "in" else x.outputs
        if not lst:
            raise Bad("no such scope")
        tgt = lst[o["scope"][1] % len(lst)]
    tgt.unknown[bytes.fromhex(o["key"])] = bytes.fromhex(o["value"])


@op("witness_append", modifies=("obj",))
def _(w, o):
    from embit.script import Witness
    need(w, o, "obj", Witness).items.append(bytes.fromhex(o["item"]))


@op("ad_append", modifies=("obj",))
def _(w, o):
    from embit.descriptor.arguments import AllowedDerivation
    a = need(w, o, "obj", AllowedDerivation)
    for el in a.indexes:
        if isinstance(el, list):
            el.append(o["v"])
            return
    raise Bad("no branch set")


@op("bytearray_append", modifies=("obj",))
def _(w, o):
    need(w, o, "obj", bytearray).extend(bytes.fromhex(o["hex"]))


@op("psbt_sign", reads=("key",), modifies=("obj",))
def _(w, o):
    from embit.psbt import PSBT
    from embit.bip32 import HDKey
    from embit.descriptor import Descriptor
    p = need(w, o, "obj", PSBT)
    k = need(w, o, "key", HDKey, Descriptor)
    return p.sign_with(k)


# ---- queries

@op("serialize", reads=("obj",))
def _(w, o):
    x = w.get(o["obj"])
    if x is None:
        raise Bad("no slot")
    return canon(x)


@op("tx_txid", reads=("obj",))
def _(w, o):
    from embit.transaction import Transaction
    return need(w, o, "obj", Transaction).txid()


def _tx_like(w, o):
    from embit.transaction import Transaction
    from embit.psbtview import PSBTView
    from embit.psbt import PSBT
    return need(w, o, "obj", Transaction, PSBTView, PSBT)


@op("sighash_segwit", reads=("obj",))
def _(w, o):
    return _tx_like(w, o).sighash_segwit(o["idx"], mk_script(o["spk"]), o["value"], o["flag"])


@op("sighash_legacy", reads=("obj",))
def _(w, o):
    return _tx_like(w, o).sighash_legacy(o["idx"], mk_script(o["spk"]), o["flag"])


# the caller's own argument lists of the previous taproot digest per receiver: with "reuse" the SAME list objects are
# edited in place and handed in again (a caller that keeps its amounts / scripts in one list) - a memo that remembers
# the argument object instead of its contents then answers from the past. Per process, hence per history: the
# pristine evaluation of one operation starts with nothing held and builds fresh lists.
_HELD = {}


@op("sighash_taproot", reads=("obj",))
def _(w, o):
    t = _tx_like(w, o)
    spks = [mk_script(s) for s in o["spks"]]
    if o.get("ba"):
        # the caller's scripts are backed by bytearrays it owns (Script.__init__ keeps the object it is given)
        spks = [type(x)(bytearray(x.data)) for x in spks]
    vals = list(o["values"])
    prev = _HELD.get(id(t))
    if o.get("reuse") and prev is not None and prev[2] is t:
        if o.get("reuse") == "bytes" and len(prev[0]) == len(spks) and all(isinstance(x.data, bytearray) for x in prev[0]):
            # the BYTES of the held scripts are edited in place: same list, same Script objects, same bytearray objects
            # (audit2 B-7: a memo key that holds `sc.data` itself compares equal to itself afterwards)
            for old, new in zip(prev[0], spks):
                old.data[:] = new.data
        elif o.get("reuse") in ("script", "bytes") and len(prev[0]) == len(spks):
            # the Script objects themselves are edited in place
            for old, new in zip(prev[0], spks):
                old.data = new.data
        else:
            prev[0][:] = spks
        prev[1][:] = vals
        spks, vals = prev[0], prev[1]
    else:
        _HELD[id(t)] = (spks, vals, t)
    return t.sighash_taproot(o["idx"], arg(spks), arg(vals), o["flag"])


@op("psbt_sighash", reads=("obj",))
def _(w, o):
    from embit.psbt import PSBT
    from embit.psbtview import PSBTView
    p = need(w, o, "obj", PSBT, PSBTView)
    return p.sighash(o["idx"], o["flag"])


@op("psbt_fee", reads=("obj",))
def _(w, o):
    from embit.psbt import PSBT
    return need(w, o, "obj", PSBT).fee()


@op("mnemonic_from_bytes", reads=("obj",))
def _(w, o):
    from embit import bip39
    return bip39.mnemonic_from_bytes(need(w, o, "obj", bytearray))


@op("mnemonic_from_literal")
def _(w, o):
    from embit import bip39
    return bip39.mnemonic_from_bytes(bytes.fromhex(o["hex"]))


@op("hd_info", reads=("obj",))
def _(w, o):
    from embit.bip32 import HDKey
    k = need(w, o, "obj", HDKey)
    return [k.to_base58(), k.my_fingerprint, k.sec()]


@op("hd_sign", reads=("obj",))
def _(w, o):
    from embit.bip32 import HDKey
    k = need(w, o, "obj", HDKey)
    if not k.is_private:
        raise Bad("public key")
    return [k.sign(bytes.fromhex(o["msg"])).serialize(), k.schnorr_sign(bytes.fromhex(o["msg"])).serialize()]


@op("desc_info", reads=("obj",))
def _(w, o):
    from embit.descriptor import Descriptor
    d = need(w, o, "obj", Descriptor)
    return [d.to_string(), d.script_pubkey().data, d.derive(o["idx"]).script_pubkey().data if d.is_wildcard else None]


@op("desc_owns", reads=("obj", "psbt"))
def _(w, o):
    from embit.descriptor import Descriptor
    from embit.psbt import PSBT
    d = need(w, o, "obj", Descriptor)
    p = need(w, o, "psbt", PSBT)
    return [d.owns(i) for i in p.inputs] + [d.owns(x) for x in p.outputs]


@op("native", defines="dst")
def _(w, o):
    """calls of the binding layer whose results C writes into buffers the wrapper builds: a buffer that is a shared
    object (a literal, a default) shows in LATER, unrelated answers - the calls themselves return the right values.
    With "dst" the caller KEEPS the objects the binding handed back (raw 64/65-byte structures included) in a pool slot:
    a later binding call that writes into the same buffer changes what the caller holds"""
    import hashlib
    from embit import ec
    secp = ec.secp256k1
    secret = bytes([o["key"]]) * 32
    msg = hashlib.sha256(b"m%d" % o["msg"]).digest()
    kind = o["fn"]
    if kind == "recoverable":
        sig = secp.ecdsa_sign_recoverable(msg, secret)
        keep = [sig] + list(secp.ecdsa_recoverable_signature_serialize_compact(sig))
        res = keep[1:]
    elif kind == "ecdsa":
        sig = secp.ecdsa_sign(msg, secret)
        res = [secp.ecdsa_signature_serialize_der(sig), secp.ecdsa_signature_serialize_compact(sig)]
        keep = [sig] + res
    elif kind == "pubkey":
        pub = secp.ec_pubkey_create(secret)
        res = [secp.ec_pubkey_serialize(pub), secp.ec_pubkey_serialize(pub, secp.EC_UNCOMPRESSED)]
        keep = [pub] + res
    elif kind == "schnorr":
        res = [secp.schnorrsig_sign(msg, secret)]
        keep = res
    elif kind == "xonly":
        pub = secp.ec_pubkey_create(secret)
        x, parity = secp.xonly_pubkey_from_pubkey(pub)
        res = [bytes(bytearray(x)), int(parity)]
        keep = [pub, x]
    elif kind == "tweak":
        res = [secp.ec_privkey_add(secret, msg), secp.ec_pubkey_serialize(secp.ec_pubkey_add(secp.ec_pubkey_create(secret), msg))]
        keep = res
    else:
        raise Bad("unknown native call")
    if o.get("dst"):
        w[o["dst"]] = keep
    return res


# ---- generic operations over the classes / functions the shared-state translator points at (harness/sharedstate.py):
#      the history language of the fixed operations above speaks about a dozen classes; a hazard found elsewhere
#      (a class-level container, a cached factory, a function that writes module state) gets its concrete history here

@op("g_new", defines="dst")
def _(w, o):
    """an instance of `cls` ("embit.script.Witness") built with default arguments / the translator's fixture"""
    import sharedstate
    w[o["dst"]] = sharedstate.build_instance(o["cls"])


@op("g_mutate", modifies=("obj",))
def _(w, o):
    """the caller's own act on a container attribute of ITS object: obj.attr.append(..) / obj.attr[k] = v"""
    import sharedstate
    x = w.get(o["obj"])
    if x is None or not hasattr(x, o["attr"]):
        raise Bad("no attribute %s" % o["attr"])
    c = getattr(x, o["attr"])
    if not isinstance(c, (list, dict, set, bytearray)):
        raise Bad("attribute %s is not a container" % o["attr"])
    if isinstance(c, list):
        # an element of the kind the container holds (so that the object can still be serialised / observed)
        known = {"vin": lambda: mk_input(1), "vout": lambda: mk_output(1), "items": lambda: b"\x01"}
        c.append(c[-1] if c else known.get(o["attr"], lambda: 1)())
    else:
        sharedstate.touch(c)


@op("g_call", defines="dst")
def _(w, o):
    """fn(*args) with the translator's argument tuple nr. `variant`; the caller keeps what it gets back"""
    import sharedstate
    cands = sharedstate.candidates(o["fn"])
    if not (0 <= o["variant"] < len(cands)):
        raise Bad("no such variant")
    r = sharedstate.invoke(o["fn"], cands[o["variant"]])
    if o.get("dst"):
        w[o["dst"]] = r
    return canon(r)


@op("g_mcall", reads=("obj",), defines="dst")
def _(w, o):
    """obj.method(*args) on a pool object with the translator's argument tuple nr. `variant`"""
    import sharedstate
    x = w.get(o["obj"])
    if x is None:
        raise Bad("no slot")
    cands = sharedstate.candidates(o["fn"])
    if not (0 <= o["variant"] < len(cands)):
        raise Bad("no such variant")
    r = sharedstate.invoke(o["fn"], cands[o["variant"]], recv=x)
    if o.get("dst"):
        w[o["dst"]] = r
    return canon(r)


@op("g_touch", modifies=("obj",))
def _(w, o):
    """the caller edits, in place, an object it holds (something a call handed back)"""
    import sharedstate
    x = w.get(o["obj"])
    if x is None:
        raise Bad("no slot")
    try:
        sharedstate.touch(x)
    except RuntimeError as e:
        raise Bad(str(e))


# ------------------------------------------------------------------------------------------------ execution

def execute(world, o):
    """-> ('ok', result) | ('raise', exception class name) | ('bad', reason)"""
    del _ARGS[:]
    try:
        r = OPS[o["op"]][3](world, o)
        return ("ok", result_canon(r))
    except Bad as e:
        return ("bad", str(e))
    except Exception as e:
        return ("raise", type(e).__name__)


def closure(ops, k):
    """indices of the operations that build the objects operation k works on (constructions, derivations and
    mutations of exactly those objects — no queries, nothing about other objects), in order"""
    reads, defines, modifies = meta(ops[k])
    needed = set(reads) | set(modifies)
    keep = []
    for j in range(k - 1, -1, -1):
        r, d, m = meta(ops[j])
        touches = (d in needed) or any(x in needed for x in m)
        if not touches:
            continue
        keep.append(j)
        if d in needed and d not in r and d not in m:
            needed.discard(d)
        needed |= set(r) | set(m)
    keep.reverse()
    return keep


def run_live(ops):
    """executes the whole history in this (fresh) process; after every operation compares every pool object the
    operation is not allowed to modify with its picture before the call"""
    w = {}
    out = []
    for k, o in enumerate(ops):
        reads, defines, modifies = meta(o)
        before = {n: canon(v) for n, v in w.items()}
        status, res = execute(w, o)
        after = {n: canon(v) for n, v in w.items()}
        changed = []
        for n, c in before.items():
            if n == defines or n in modifies:
                continue
            if after.get(n) != c:
                entry = {"slot": n, "role": "argument" if n in reads else "other", "before": c, "after": after.get(n)}
                entry["only_taproot_flag"] = only_taproot_flag(w, n, c)
                changed.append(entry)
        for i, (x, pic) in enumerate(_ARGS):
            now = canon(x)
            if now != pic:
                changed.append({"slot": "<literal argument %d>" % i, "role": "argument", "before": pic, "after": now,
                                "only_taproot_flag": False})
        tgt = defines if defines else (modifies[0] if modifies else None)
        rec = {"status": status, "result": res, "target": after.get(tgt) if tgt else None, "changed": changed}
        if o["op"] == "sighash_taproot" and status == "ok":
            # staleness proper: the same digest asked of an equal copy of the receiver as it is NOW
            try:
                w2 = dict(w)
                w2[o["obj"]] = equal_copy(w[o["obj"]])
                rec["stale"] = execute(w2, o) != (status, res)
            except Exception:
                rec["stale"] = None
        out.append(rec)
    return out


def equal_copy(x):
    from embit.transaction import Transaction
    from embit.psbt import PSBT
    from embit.psbtview import PSBTView
    if isinstance(x, (Transaction, PSBT)):
        return type(x).parse(x.serialize())
    if isinstance(x, PSBTView):
        return PSBTView.view(BytesIO(x.stream.getvalue()), offset=x.offset, compress=x.compress)
    raise Bad("no copy")


def only_taproot_flag(w, n, before):
    """the change of slot n is exactly a flipped `taproot` flag on its key objects (finding D31)"""
    from embit.descriptor.arguments import Key
    o = w.get(n)
    ks = getattr(o, "keys", None)
    keys = [o] if isinstance(o, Key) else (list(ks) if isinstance(ks, (list, tuple)) else [])   # a dict's .keys is a method
    if not keys or "taproot" not in str(before) and "keys_taproot" not in str(before):
        return False
    old = before.get("taproot") if "taproot" in before else None
    olds = [old] if isinstance(o, Key) else before.get("keys_taproot")
    if olds is None or len(olds) != len(keys):
        return False
    cur = [k.taproot for k in keys]
    try:
        for k, v in zip(keys, olds):
            k.taproot = v
        same = canon(o) == before
    finally:
        for k, v in zip(keys, cur):
            k.taproot = v
    return same


def run_fresh(ops, k):
    """the same call in this (fresh) process on freshly built equal arguments"""
    w = {}
    for j in closure(ops, k):
        execute(w, ops[j])
    o = ops[k]
    reads, defines, modifies = meta(o)
    status, res = execute(w, o)
    tgt = defines if defines else (modifies[0] if modifies else None)
    return {"status": status, "result": res, "target": canon(w[tgt]) if tgt and tgt in w else None}
