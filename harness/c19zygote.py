"""C19 — fork server. A pristine interpreter: imports embit and the operation table, executes NOTHING of embit, then
serves requests (one JSON object per line on stdin, one JSON answer per line on stdout). Every evaluation runs in a
child forked from this pristine state and exits, so each evaluation starts from the state right after import.

request {"ops": [...], "fresh": [k, ...]}  ->  {"live": [...per op...], "fresh": {k: ...}, "defaults": [...]}
  live : the whole history executed in ONE fresh child (state accumulates along the history)
  fresh: for every requested k, operation k executed in its OWN fresh child on freshly built equal arguments
         (the closure of constructions / mutations of the objects it works on)
  defaults: default-argument objects and module-level tables that differ from their picture at import time"""
import json
import os
import sys

sys.path.insert(0, os.path.dirname(os.path.abspath(__file__)))
sys.path.insert(0, os.path.join(os.environ.get("EMBIT_REPO", "/repo"), "src"))

import re  # noqa: E402

import c19ops  # noqa: E402
import aliasfacts  # noqa: E402
import sharedstate  # noqa: E402


def shared_objects():
    """(name, object) for every mutable default argument and module-level mutable table of embit"""
    out = []
    mods, _ = aliasfacts.embit_modules()
    for mod in mods:
        sm = aliasfacts.short_mod(mod.__name__)
        for q, f, owner in aliasfacts.functions_of(mod):
            vals = list(f.__defaults__ or ()) + list((f.__kwdefaults__ or {}).values())
            for i, v in enumerate(vals):
                if isinstance(v, aliasfacts.MUTABLE):
                    out.append(("%s.%s default #%d" % (sm, q, i), v))
        for k, v in vars(mod).items():
            if isinstance(v, aliasfacts.MUTABLE) and not k.startswith("__") and len(repr(v)) < 200000:
                out.append(("%s.%s" % (sm, k), v))
    seen = set()
    uniq = []
    for n, v in out:
        if id(v) in seen:
            continue
        seen.add(id(v))
        uniq.append((n, v))
    return uniq


SHARED = shared_objects()
PICTURE = [repr(v) for _, v in SHARED]


def inventory():
    """every module-level binding and class-level attribute (mutable containers, instances, identity of every binding) with
    its import-time picture: the same inventory the shared-state translator classifies (harness/sharedstate.py)"""
    mods, _ = aliasfacts.embit_modules()
    trees = {}
    for mod in mods:
        try:
            trees[mod.__name__] = aliasfacts.ast_functions(mod)[0]
        except Exception:
            pass
    return sharedstate.Inventory(mods, trees)


def benign_memo_tables():
    """module- / class-level memo dictionaries the translator probed as holding immutable values only: they grow by
    design and no answer depends on them (kind `.moduleMemo false`, probe confirmedSafe in the generated facts)"""
    p = os.path.join(os.path.dirname(os.path.dirname(os.path.abspath(__file__))), "lean", "EmbitModel", "Generated", "AliasFacts.lean")
    try:
        src = open(p).read()
    except OSError:
        return set()
    return set(re.findall(r'name := "modmemo:[^"\[]*\[([^"\]]*)\]", kind := \.moduleMemo false, probe := \.confirmedSafe', src))


INVENTORY = inventory()
BENIGN = benign_memo_tables()


def in_child(fn):
    """run fn() in a forked child, return its JSON result"""
    r, w = os.pipe()
    pid = os.fork()
    if pid == 0:
        try:
            os.close(r)
            try:
                res = {"ok": fn()}
            except BaseException as e:  # noqa
                import traceback
                tb = traceback.extract_tb(e.__traceback__)[-4:]
                res = {"error": "%s: %s [%s]" % (type(e).__name__, e, " <- ".join("%s:%d %s" % (os.path.basename(f.filename), f.lineno, f.name) for f in reversed(tb)))}
            data = json.dumps(res).encode()
            with os.fdopen(w, "wb") as fh:
                fh.write(data)
        finally:
            os._exit(0)
    os.close(w)
    chunks = []
    with os.fdopen(r, "rb") as fh:
        while True:
            b = fh.read(1 << 16)
            if not b:
                break
            chunks.append(b)
    _, status = os.waitpid(pid, 0)
    data = b"".join(chunks)
    if not data:
        return {"error": "child died (status %d)" % status}
    return json.loads(data)


def live(ops):
    res = c19ops.run_live(ops)
    changed = [n for (n, v), pic in zip(SHARED, PICTURE) if repr(v) != pic and n not in BENIGN]
    for n, what in INVENTORY.changed():
        if n not in changed and n not in BENIGN:
            changed.append(n)
    return {"live": res, "defaults": changed}


def main():
    out = sys.stdout
    for line in sys.stdin:
        line = line.strip()
        if not line:
            continue
        req = json.loads(line)
        ops = req["ops"]
        ans = {}
        a = in_child(lambda: live(ops))
        if "ok" in a:
            ans.update(a["ok"])
        else:
            ans["error"] = a["error"]
        ans["fresh"] = {}
        for k in req.get("fresh", []):
            b = in_child(lambda k=k: c19ops.run_fresh(ops, k))
            ans["fresh"][str(k)] = b.get("ok", {"status": "error", "result": b.get("error"), "target": None})
        out.write(json.dumps(ans) + "\n")
        out.flush()


if __name__ == "__main__":
    main()
