"""Descriptor generators shared by C12 and C14.

A generated descriptor is a small Python object tree (independent of embit's Descriptor classes):
  KE      key expression: key form, optional origin, derivation steps
  Desc    wrapper + key / miniscript tree (msgen node format, key leaves carry KE objects) / tap tree
It can print itself (canonical text = what embit is expected to print; variant text = the other spellings the
grammar allows), compute the public key of every key expression at (index, branch) with embit's bip32 API only,
build the expected script in plain Python (hashlib + a 40-line affine secp256k1 for the taproot tweak) for the
forms the property names, and emit the resolved form as tokens for the Lean spec (`spec.script …`).
"""
import hashlib

import msgen

HARD = 0x80000000
P = 0xFFFFFFFFFFFFFFFFFFFFFFFFFFFFFFFFFFFFFFFFFFFFFFFFFFFFFFFEFFFFFC2F
N = 0xFFFFFFFFFFFFFFFFFFFFFFFFFFFFFFFEBAAEDCE6AF48A03BBFD25E8CD0364141
G = (0x79BE667EF9DCBBAC55A06295CE870B07029BFCDB2DCE28D959F2815B16F81798,
     0x483ADA7726A3C4655DA4FBFC0E1108A8FD17B448A68554199C47D08FFB10D4B8)


# ------------------------------------------------------------------ plain-Python primitives (independent of embit)

def sha256(b):
    return hashlib.sha256(b).digest()


def hash160(b):
    return hashlib.new("ripemd160", hashlib.sha256(b).digest()).digest()


def tagged(tag, data):
    t = sha256(tag.encode())
    return sha256(t + t + data)


def pt_add(a, b):
    if a is None:
        return b
    if b is None:
        return a
    if a[0] == b[0]:
        if (a[1] + b[1]) % P == 0:
            return None
        l = 3 * a[0] * a[0] * pow(2 * a[1], -1, P) % P
    else:
        l = (b[1] - a[1]) * pow(b[0] - a[0], -1, P) % P
    x = (l * l - a[0] - b[0]) % P
    return (x, (l * (a[0] - x) - a[1]) % P)


def pt_mul(k, pt):
    r = None
    while k:
        if k & 1:
            r = pt_add(r, pt)
        pt = pt_add(pt, pt)
        k >>= 1
    return r


def lift_x(x):
    y = pow((x * x * x + 7) % P, (P + 1) // 4, P)
    if y * y % P != (x * x * x + 7) % P:
        return None
    return (x, y if y % 2 == 0 else P - y)


def taproot_output(xonly, merkle_root):
    """BIP341: x-only of lift_x(P) + int(TapTweak(P || root)) G"""
    t = int.from_bytes(tagged("TapTweak", xonly + merkle_root), "big")
    if t == 0 or t >= N:
        return None
    q = pt_add(lift_x(int.from_bytes(xonly, "big")), pt_mul(t, G))
    return q[0].to_bytes(32, "big")


def push(d):
    assert len(d) < 76
    return bytes([len(d)]) + d


def opnum(n):
    if n == 0:
        return b"\x00"
    if n <= 16:
        return bytes([0x50 + n])
    b = n.to_bytes(8, "little").rstrip(b"\x00")
    if b[-1] & 0x80:
        b += b"\x00"
    return bytes([len(b)]) + b


def compact(n):
    if n < 0xfd:
        return bytes([n])
    if n <= 0xffff:
        return b"\xfd" + n.to_bytes(2, "little")
    return b"\xfe" + n.to_bytes(4, "little")


def p2pkh(sec):
    return b"\x76\xa9\x14" + hash160(sec) + b"\x88\xac"


def p2wpkh(sec):
    return b"\x00\x14" + hash160(sec)


def p2sh(s):
    return b"\xa9\x14" + hash160(s) + b"\x87"


def p2wsh(s):
    return b"\x00\x20" + sha256(s)


# ------------------------------------------------------------------ key expressions

def show_index(n, marker="h"):
    return "%d%s" % (n - HARD, marker) if n >= HARD else "%d" % n


class KE:
    """kind: sec | unc | xonly | wif | wifu | xpub | xprv
    hd: embit HDKey (private) for xpub/xprv; priv: embit PrivateKey for the others
    origin: None | (fingerprint bytes, [ints]); steps: list of int | ("set", [ints]) | "*" (None = no derivation)"""

    def __init__(self, kind, hd=None, priv=None, origin=None, steps=None, version=None, network="main"):
        self.kind = kind
        self.hd = hd
        self.priv = priv
        self.origin = origin
        self.steps = steps
        self.version = version  # None or slip132 name, e.g. "zpub"/"zprv"
        self.network = network
        self.markers = None  # variant spelling: per-hardened-element marker chooser
        self.setform = "<"

    @property
    def is_hd(self):
        return self.kind in ("xpub", "xprv")

    @property
    def is_private(self):
        return self.kind in ("wif", "wifu", "xprv")

    @property
    def ranged(self):
        return bool(self.steps) and "*" in self.steps

    @property
    def nbranches(self):
        for s in self.steps or []:
            if isinstance(s, tuple):
                return len(s[1])
        return 1

    @property
    def has_hardened_steps(self):
        for s in self.steps or []:
            if isinstance(s, int) and s >= HARD:
                return True
            if isinstance(s, tuple) and any(e >= HARD for e in s[1]):
                return True
        return False

    def key_text(self):
        from embit.networks import NETWORKS
        if self.kind in ("sec", "unc", "xonly"):
            pk = self.priv.get_public_key()
            pk.compressed = self.kind != "unc"
            sec = pk.sec()
            return sec[1:33].hex() if self.kind == "xonly" else sec.hex()
        if self.kind in ("wif", "wifu"):
            from embit import ec
            return ec.PrivateKey(self.priv.secret, compressed=self.kind == "wif").wif(NETWORKS[self.network])
        net = NETWORKS[self.network]
        if self.kind == "xprv":
            return self.hd.to_base58(net[self.version or "xprv"])
        return self.hd.to_public().to_base58(net[self.version or "xpub"])

    def text(self, rng=None):
        """canonical text (rng None) or a variant spelling of the same expression"""
        s = ""
        mk = (lambda: "h") if rng is None else (lambda: rng.choice(["h", "H", "'"]))
        if self.origin is not None:
            fp, path = self.origin
            fph = fp.hex()
            if rng is not None and rng.random() < 0.3:
                fph = fph.upper()
            s += "[" + fph + "".join("/" + show_index(e, mk()) for e in path)
            if rng is not None and path and rng.random() < 0.1:
                s += "/"
            s += "]"
        s += self.key_text()
        if self.steps:
            setform = "<" if rng is None else rng.choice(["<", "<", "{"])
            for st in self.steps:
                if st == "*":
                    s += "/*"
                elif isinstance(st, tuple):
                    els = [show_index(e, mk()) for e in st[1]]
                    s += "/<" + ";".join(els) + ">" if setform == "<" else "/{" + ",".join(els) + "}"
                else:
                    s += "/" + show_index(st, mk())
        return s

    def path_at(self, i, b):
        res = []
        for st in self.steps or []:
            if st == "*":
                res.append(i)
            elif isinstance(st, tuple):
                res.append(st[1][b])
            else:
                res.append(st)
        return res

    def sec_at(self, i, b, public_only=False):
        """SEC bytes of the public key at (i, b), through embit's ec / bip32 API only.
        public_only: derive from the xpub (non-hardened steps only)"""
        if not self.is_hd:
            pk = self.priv.get_public_key()
            pk.compressed = self.kind not in ("unc", "wifu")
            return pk.sec()
        root = self.hd.to_public() if (public_only or self.kind == "xpub") else self.hd
        return root.derive(self.path_at(i, b)).sec()

    def my_fingerprint(self):
        return hash160(self.hd.to_public().sec())[:4] if self.is_hd else None

    def record_at(self, i, b, short=False):
        """(fingerprint, full path) a PSBT would record for this key at (i, b)"""
        p = self.path_at(i, b)
        if self.origin is not None and not short:
            return (self.origin[0], list(self.origin[1]) + p)
        return (self.my_fingerprint(), p)


# ------------------------------------------------------------------ miniscript trees over key expressions

def ms_map_keys(t, f):
    """msgen tree with (kidx, form) key slots -> tree whose key slots hold f(kidx, form)"""
    k = t[0]
    if k == "key":
        return ("key", t[1], f(t[2], t[3]))
    if k == "multi":
        return ("multi", t[1], t[2], [f(i, fm) for (i, fm) in t[3]])
    if k in ("time", "hash"):
        return t
    if k == "andor":
        return ("andor",) + tuple(ms_map_keys(x, f) for x in t[1:])
    if k == "bin":
        return ("bin", t[1], ms_map_keys(t[2], f), ms_map_keys(t[3], f))
    if k == "thresh":
        return ("thresh", t[1], [ms_map_keys(x, f) for x in t[2]])
    if k == "wrap":
        return ("wrap", t[1], ms_map_keys(t[2], f))
    raise ValueError(k)


def ms_keys(t, acc=None):
    """key expressions in embit's `Miniscript.keys` order (direct key arguments first, then sub-expressions)"""
    acc = [] if acc is None else acc
    k = t[0]
    if k == "key":
        if isinstance(t[2], KE):
            acc.append(t[2])
    elif k == "multi":
        acc.extend(t[3])
    elif k == "andor":
        for x in t[1:]:
            ms_keys(x, acc)
    elif k == "bin":
        ms_keys(t[2], acc)
        ms_keys(t[3], acc)
    elif k == "thresh":
        for x in t[2]:
            ms_keys(x, acc)
    elif k == "wrap":
        ms_keys(t[2], acc)
    return acc


def ms_text(t, rng=None):
    k = t[0]
    if k == "key":
        a = t[2]
        return "%s(%s)" % (t[1], a.text(rng) if isinstance(a, KE) else a.hex())
    if k == "time":
        return "%s(%d)" % (t[1], t[2])
    if k == "hash":
        h = t[2].hex()
        return "%s(%s)" % (t[1], h.upper() if rng is not None and rng.random() < 0.1 else h)
    if k == "andor":
        return "andor(%s)" % ",".join(ms_text(x, rng) for x in t[1:])
    if k == "bin":
        return "%s(%s,%s)" % (t[1], ms_text(t[2], rng), ms_text(t[3], rng))
    if k == "thresh":
        return "thresh(%s)" % ",".join([str(t[1])] + [ms_text(x, rng) for x in t[2]])
    if k == "multi":
        return "%s(%s)" % (t[1], ",".join([str(t[2])] + [a.text(rng) for a in t[3]]))
    if k == "wrap":
        inner = ms_text(t[2], rng)
        return t[1] + inner if t[2][0] == "wrap" else t[1] + ":" + inner
    raise ValueError(k)


def hx(b):
    return b.hex() if len(b) else "-"


def ms_tokens(t, tap, i, b, out, public_only=False):
    """prefix tokens of the expression with every key resolved at (i, b) — for the Lean spec"""
    k = t[0]

    def payload(a):
        sec = a.sec_at(i, b, public_only)
        return sec[1:33] if tap else sec
    if k == "key":
        a = t[2]
        if t[1] in ("pk_h", "pkh"):
            p = hash160(payload(a)) if isinstance(a, KE) else a
        else:
            p = payload(a)
        out += [t[1], hx(p)]
    elif k == "time":
        out += [t[1], str(t[2])]
    elif k == "hash":
        out += [t[1], hx(t[2])]
    elif k == "andor":
        out.append("andor")
        for x in t[1:]:
            ms_tokens(x, tap, i, b, out, public_only)
    elif k == "bin":
        out.append(t[1])
        ms_tokens(t[2], tap, i, b, out, public_only)
        ms_tokens(t[3], tap, i, b, out, public_only)
    elif k == "thresh":
        out += ["thresh", str(t[1]), str(len(t[2]))]
        for x in t[2]:
            ms_tokens(x, tap, i, b, out, public_only)
    elif k == "multi":
        out += [t[1], str(t[2]), str(len(t[3]))]
        out += [hx(payload(a)) for a in t[3]]
    elif k == "wrap":
        out.append(t[1] + ":")
        ms_tokens(t[2], tap, i, b, out, public_only)
    else:
        raise ValueError(k)
    return out


def ms_py_script(t, tap, i, b):
    """plain-Python script for the expression forms the property names (pk, pkh, multi, sortedmulti, multi_a,
    sortedmulti_a); None for anything else (those go to the Lean spec)"""
    k = t[0]

    def payload(a):
        sec = a.sec_at(i, b)
        return sec[1:33] if tap else sec
    if k == "key" and isinstance(t[2], KE):
        if t[1] == "pk":
            return push(payload(t[2])) + b"\xac"
        if t[1] == "pkh":
            return b"\x76\xa9" + push(hash160(payload(t[2]))) + b"\x88\xac"
        return None
    if k == "multi":
        keys = [payload(a) for a in t[3]]
        if t[1] in ("sortedmulti", "sortedmulti_a"):
            keys = sorted(keys)
        if t[1] in ("multi", "sortedmulti"):
            return opnum(t[2]) + b"".join(push(x) for x in keys) + opnum(len(keys)) + b"\xae"
        return push(keys[0]) + b"\xac" + b"".join(push(x) + b"\xba" for x in keys[1:]) + opnum(t[2]) + b"\x9c"
    return None


# ------------------------------------------------------------------ descriptors

class Desc:
    """wrapper in pkh wpkh shwpkh sh wsh shwsh tr; key (KE) for the key forms and tr; ms tree for sh/wsh/shwsh;
    tree for tr: None | ("leaf", ms) | ("node", l, r)"""

    def __init__(self, wrapper, key=None, ms=None, tree=None):
        self.wrapper = wrapper
        self.key = key
        self.ms = ms
        self.tree = tree

    @property
    def tap(self):
        return self.wrapper == "tr"

    def keys(self):
        """in embit's `Descriptor.keys` order"""
        if self.wrapper == "tr":
            return [self.key] + (tree_keys(self.tree) if self.tree else [])
        if self.ms is not None:
            return ms_keys(self.ms)
        return [self.key]

    def text(self, rng=None):
        w = self.wrapper
        if w == "tr":
            if self.tree is None:
                return "tr(%s)" % self.key.text(rng)
            return "tr(%s,%s)" % (self.key.text(rng), tree_text(self.tree, rng))
        if w == "pkh":
            return "pkh(%s)" % self.key.text(rng)
        if w == "wpkh":
            return "wpkh(%s)" % self.key.text(rng)
        if w == "shwpkh":
            return "sh(wpkh(%s))" % self.key.text(rng)
        m = ms_text(self.ms, rng)
        return {"sh": "sh(%s)", "wsh": "wsh(%s)", "shwsh": "sh(wsh(%s))"}[w] % m

    @property
    def nbranches(self):
        return max([k.nbranches for k in self.keys()] + [1])

    @property
    def ranged(self):
        return any(k.ranged for k in self.keys())

    def spec_tokens(self, i, b, public_only=False):
        """the resolved descriptor for `spec.script`"""
        w = self.wrapper
        if w in ("pkh", "wpkh"):
            return "%s %s" % (w, hx(self.key.sec_at(i, b, public_only)))
        if w == "shwpkh":
            return "sh wpkh %s" % hx(self.key.sec_at(i, b, public_only))
        if w == "tr":
            x = self.key.sec_at(i, b, public_only)[1:33]
            if self.tree is None:
                return "tr %s none" % hx(x)
            return "tr %s tree %s" % (hx(x), " ".join(tree_tokens(self.tree, i, b, [], public_only)))
        toks = " ".join(ms_tokens(self.ms, False, i, b, [], public_only))
        return {"sh": "sh ms ", "wsh": "wsh ms ", "shwsh": "sh wsh ms "}[w] + toks

    def py_script(self, i, b):
        """(script_pubkey, redeem_script | None, witness_script | None) built in plain Python, or None when the
        script expression is outside the hand-built forms"""
        w = self.wrapper
        if w == "pkh":
            return (p2pkh(self.key.sec_at(i, b)), None, None)
        if w == "wpkh":
            return (p2wpkh(self.key.sec_at(i, b)), None, None)
        if w == "shwpkh":
            r = p2wpkh(self.key.sec_at(i, b))
            return (p2sh(r), r, None)
        if w == "tr":
            x = self.key.sec_at(i, b)[1:33]
            root = b""
            if self.tree is not None:
                root = tree_py_root(self.tree, i, b)
                if root is None:
                    return None
            q = taproot_output(x, root)
            return (b"\x51\x20" + q, None, None)
        s = ms_py_script(self.ms, False, i, b)
        if s is None:
            return None
        if w == "sh":
            return (p2sh(s), s, None)
        if w == "wsh":
            return (p2wsh(s), None, s)
        return (p2sh(p2wsh(s)), p2wsh(s), s)


def tree_keys(t):
    if t[0] == "leaf":
        return ms_keys(t[1])
    return tree_keys(t[1]) + tree_keys(t[2])


def tree_text(t, rng=None):
    if t[0] == "leaf":
        return ms_text(t[1], rng)
    return "{%s,%s}" % (tree_text(t[1], rng), tree_text(t[2], rng))


def tree_tokens(t, i, b, out, public_only=False):
    if t[0] == "leaf":
        out.append("leaf")
        ms_tokens(t[1], True, i, b, out, public_only)
    else:
        out.append("node")
        tree_tokens(t[1], i, b, out, public_only)
        tree_tokens(t[2], i, b, out, public_only)
    return out


def tree_py_root(t, i, b):
    if t[0] == "leaf":
        s = ms_py_script(t[1], True, i, b)
        if s is None:
            return None
        return tagged("TapLeaf", b"\xc0" + compact(len(s)) + s)
    l = tree_py_root(t[1], i, b)
    r = tree_py_root(t[2], i, b)
    if l is None or r is None:
        return None
    if r < l:
        l, r = r, l
    return tagged("TapBranch", l + r)


# ------------------------------------------------------------------ generators

class Pool:
    """seeded key material: HD roots with account keys (honest origins), loose private keys"""

    def __init__(self, rng, nroots=4):
        from embit import bip32, ec
        self.rng = rng
        self.roots = []
        for _ in range(nroots):
            seed = bytes(rng.getrandbits(8) for _ in range(32))
            self.roots.append(bip32.HDKey.from_seed(seed))
        self.privs = []
        for _ in range(12):
            while True:
                sk = bytes(rng.getrandbits(8) for _ in range(32))
                if 0 < int.from_bytes(sk, "big") < N:
                    break
            self.privs.append(ec.PrivateKey(sk))

    def account(self):
        """(hd node, honest origin or None)"""
        r = self.rng
        root = r.choice(self.roots)
        c = r.random()
        if c < 0.15:
            return root, None                       # master key, no origin
        purpose = r.choice([44, 49, 84, 86, 48, 0, 2 ** 31 - 1])
        path = [purpose + HARD, r.choice([0, 1]) + HARD, r.choice([0, 1, 7]) + HARD]
        if r.random() < 0.3:
            path = path[: r.choice([1, 2])]
        if r.random() < 0.15:
            path.append(r.choice([0, 2, 5]))
        node = root.derive(path)
        if r.random() < 0.2:
            return node, None                       # account key without origin
        return node, (hash160(root.to_public().sec())[:4], path)

    distinct_sets = False
    max_multi = None

    def steps(self, nb, private, ranged=True):
        """derivation steps with `nb` branches (1 = no set)"""
        r = self.rng

        def el():
            v = r.choice([0, 1, 2, 3, 7, 100, 2 ** 31 - 1, r.randrange(0, 2 ** 31)])
            if private and r.random() < 0.15:
                v += HARD
            return v
        st = []
        if r.random() < 0.2:
            st.append(el())
        if nb > 1 and ranged and r.random() < 0.12:
            st.append(r.choice([0, 1, 5]))            # a ranged key WITHOUT a branch set next to keys with one
        elif nb > 1:
            base = r.choice([0, 0, 0, 2, 10])
            els = [base + j for j in range(nb)]
            if r.random() < 0.15:
                els = [el() for _ in range(nb)]      # unusual sets, possibly with duplicates
                if self.distinct_sets and len(set(els)) < nb:
                    els = [base + j for j in range(nb)]
            if private and r.random() < 0.1:
                els = [e + HARD if e < HARD else e for e in els]
            st.append(("set", els))
        elif r.random() < 0.4:
            st.append(r.choice([0, 1]))
        if ranged:
            st.append("*")
            if r.random() < 0.05:
                st.append(el())                        # a step after the wildcard
        elif not st:
            st.append(el())
        return st

    def key(self, tap, nb=1, want_hd=None, ranged=True, private_ok=True):
        r = self.rng
        hd = want_hd if want_hd is not None else r.random() < 0.7
        if hd:
            node, origin = self.account()
            private = private_ok and r.random() < 0.3
            c = r.random()
            if c < 0.12:
                steps = None
            elif c < 0.22:
                steps = self.steps(1, private, ranged=False)
            else:
                steps = self.steps(nb, private, ranged=ranged)
            version = None
            network = "main"
            if r.random() < 0.15:
                network = "test"
            if r.random() < 0.1:
                version = r.choice(["y", "z", "Y", "Z"]) + ("prv" if private else "pub")
            return KE("xprv" if private else "xpub", hd=node, origin=origin, steps=steps, version=version,
                      network=network)
        priv = r.choice(self.privs)
        kinds = ["sec", "sec", "wif"] if private_ok else ["sec"]
        if tap:
            kinds += ["xonly", "xonly"]
        else:
            kinds += ["unc", "wifu"] if private_ok else ["unc"]
        kind = r.choice(kinds)
        origin = None
        if r.random() < 0.2:
            origin = (bytes(r.getrandbits(8) for _ in range(4)), [r.choice([0, 1, 44 + HARD, 2 ** 31 - 1 + HARD])
                                                                  for _ in range(r.choice([0, 1, 3]))])
        return KE(kind, priv=priv, origin=origin, network=r.choice(["main", "main", "test"]))


def gen_ms(pool, tap, nb, depth=None, simple=None, private_ok=True):
    """a miniscript tree over fresh key expressions"""
    r = pool.rng
    g = msgen.Gen(r, tap)
    if simple is None:
        simple = r.random() < 0.55
    if simple:
        c = r.random()
        if c < 0.6:
            t = g.multi(good=True)
            if not tap and r.random() < 0.5 and len(t[3]) > 5:
                t = ("multi", t[1], min(t[2], 3), t[3][:3])
        elif c < 0.8:
            t = ("key", "pk", 0, "sec")
        else:
            t = ("key", "pkh", 0, "sec")
    else:
        t = g.expr("B", depth or r.choice([2, 2, 3, 3, 4]))
        if msgen.size(t) > 40:
            t = g.expr("B", 2)
    if pool.max_multi:
        t = _cap_multis(t, pool.max_multi)
    cache = {}

    def slot(kidx, form):
        if form == "raw":
            return msgen.raw_hash(kidx)
        if kidx not in cache or r.random() < 0.3:
            cache[kidx] = pool.key(tap, nb, private_ok=private_ok)
        return cache[kidx]
    return ms_map_keys(t, slot)


def _cap_multis(t, n):
    k = t[0]
    if k == "multi":
        return ("multi", t[1], min(t[2], n), t[3][:n]) if len(t[3]) > n else t
    if k == "andor":
        return ("andor",) + tuple(_cap_multis(x, n) for x in t[1:])
    if k == "bin":
        return ("bin", t[1], _cap_multis(t[2], n), _cap_multis(t[3], n))
    if k == "thresh":
        return ("thresh", t[1], [_cap_multis(x, n) for x in t[2]])
    if k == "wrap":
        return ("wrap", t[1], _cap_multis(t[2], n))
    return t


def gen_tree(pool, nb, depth, private_ok=True):
    r = pool.rng
    if depth == 0 or r.random() < 0.4:
        return ("leaf", gen_ms(pool, True, nb, private_ok=private_ok))
    return ("node", gen_tree(pool, nb, depth - 1, private_ok), gen_tree(pool, nb, depth - 1, private_ok))


WRAPPERS = ["pkh", "wpkh", "shwpkh", "sh", "wsh", "shwsh", "tr", "trtree"]


def gen_desc(pool, wrapper=None, nb=None, private_ok=True, ranged=True, want_hd=None):
    r = pool.rng
    w = wrapper or r.choice(WRAPPERS)
    if nb is None:
        nb = r.choice([1, 2, 2, 2, 3])
    if w in ("pkh", "wpkh", "shwpkh"):
        return Desc(w, key=pool.key(False, nb, want_hd=want_hd, ranged=ranged, private_ok=private_ok))
    if w == "tr":
        return Desc("tr", key=pool.key(True, nb, want_hd=want_hd, ranged=ranged, private_ok=private_ok))
    if w == "trtree":
        return Desc("tr", key=pool.key(True, nb, want_hd=want_hd, ranged=ranged, private_ok=private_ok),
                    tree=gen_tree(pool, nb, r.choice([0, 1, 1, 2, 3]), private_ok))
    return Desc(w, ms=gen_ms(pool, False, nb, private_ok=private_ok))
