"""Regenerates MANIFEST.json from the table below (kept in one place so it always validates)."""
import json
import os

VERIF = os.path.dirname(os.path.dirname(os.path.abspath(__file__)))
TITLES = {}
for l in open(os.path.join(VERIF, "properties.jsonl")):
    p = json.loads(l)
    TITLES[p["id"]] = p["title"]

# id -> (category, technique, text, note, design_ref)
CLAIMED = {
    "C19": ("proof",
            "Lean 4 theorems over all histories of an object-store model (independence, no argument mutation, answers are "
            "functions of receiver and arguments) + translator for the aliasing facts (obligation facts_safe_partial) + "
            "history correspondence against pristine processes",
            "Props/C19.lean proves, for the object store of Model/Heap.lean and EVERY history of operations (construct with "
            "defaults / fresh literals / from another object, mutate one object, query with arbitrary arguments; unbounded "
            "length and pool): if no constructor stores a default object or a container of its source by reference, objects "
            "created independently never influence each other (independence, independence_history; invariant: the containers "
            "of distinct objects and the caller's argument objects are pairwise distinct cells); if additionally no method "
            "writes through its argument, every argument object is unchanged by any further history (no_arg_mutation); if no "
            "memo is keyed on nothing and direct mutations are followed by the cache invalidation the API provides, every "
            "answer equals f(receiver contents, argument contents) - nothing constructed, mutated elsewhere or computed before "
            "enters (result_depends_only_on_receiver_and_args, query_stable). Each hypothesis is shown necessary by a witness "
            "theorem (shared_default_breaks_independence, shared_source_breaks_independence, stale_memo, "
            "mutating_method_changes_argument, stale_after_raw_mutation). The descriptors are NOT hand-written: "
            "harness/aliasfacts.py scans all 779 functions of the loaded embit modules (loaded objects for defaults, ast for "
            "what the body does with each parameter) for mutable literal defaults (stored / copied / None-guarded, confirmed "
            "by identity probes A().x is A().x), memo fields and whether the cached value depends on arguments or misses the "
            "invalidator, writes through parameters (before/after probes), constructors writing into argument objects, "
            "builder methods writing their receiver, byte buffers handed to native code (shared constant / alias of an "
            "argument), plus always-on probes of the repaired defects, into Generated/AliasFacts.lean; "
            "Props/C19Facts.facts_safe_partial (by kernel evaluation) is the obligation that every such site is safe, and "
            "embit_descriptors_safe / embit_results_depend_only_on_arguments instantiate the theorems with the extracted "
            "library. Partial: eleven functions that modify an argument by documented contract (in-place tweak variants of "
            "both secp256k1 back ends, hash/stream sinks, the scope passed to sign_input_with_tapkey) and the recorded "
            "unrepaired defect D31 (Descriptor / TapTree constructors write k.taproot into the caller's keys) are excluded "
            "by name in the theorem file. Each run also executes seeded random histories over real objects (Transaction, "
            "Witness, PSBT, PSBT/PSET scopes, PSBTView, HDKey, descriptor keys, descriptors, tap trees, AllowedDerivation, "
            "bytearrays; construct, mutate, derive / branch / neuter, sign, legacy / segwit / taproot digests with varying "
            "arguments, parse, serialise, mnemonic_from_bytes) in a process forked from a pristine interpreter and compares "
            "every call with the same call in its own pristine process on freshly built equal arguments, every other pool "
            "object, every argument and every default object with their pictures before the call (failures are shrunk to "
            "minimal histories); the part of each history the model speaks about is run through the native Lean model with "
            "the extracted descriptors and the aliasing / staleness / argument-change pattern must agree. Ten defects were "
            "found this way and repaired (fixes/c19-*.diff), one is recorded as known (D31). "
            "DEEPENED (Props/C19X.lean): the exclusion is EXACT - a site is unsafe iff its name is in d31Sites (= knownUnsafe, a "
            "list literal of 5 names) or in contractMutators (unsafe_sites_exactly; every excluded name denotes exactly one "
            "site, excluded_names_denote_one_site_each), the environment extracted with the D31 sites left in is NOT safe and "
            "the D31 history (k = Key; Descriptor(key=k, taproot=True) resp. TapTree) changes the caller's object and a later "
            "answer in the heap model (d31_sites_make_the_environment_unsafe), and with exactly those names removed no history "
            "changes an argument and objects are independent (embit_safe_without_d31). New model Model/HeapAlias.lean for a "
            "pattern Model/Heap.lean lacks - the CALLER edits its own argument list in place between two calls: keyed memos "
            "whose key copies the argument's contents answer f(receiver, argument now) after every history (copying_keys_safe), "
            "a key that is the caller's object answers from the past after an in-place edit and only then "
            "(aliasing_key_is_stale_after_in_place_edit, aliasing_key_hits_for_a_different_argument, "
            "aliasing_keys_safe_without_in_place_edits); the key kinds of embit's keyed memos are extracted (Gen.Alias.memoKeys: "
            "AST of the key expression + a probe editing the caller's list and its elements in place) and all copy "
            "(embit_memo_keys_copy, embit_keyed_memos_survive_in_place_edits); histories with `reuse` (same list objects edited "
            "in place and handed in again) are run through the new model (memo.trace) and the staleness must agree.",
            "Trusted: Lean kernel + propext/Quot.sound/Classical.choice; the translator (its AST rules decide what counts as a "
            "hazard; anything it cannot classify is emitted as unclassified and breaks the obligation); the harness. The model "
            "is abstract (objects = lists of container cells): Script, TransactionInput/Output, EC and HD keys are treated as "
            "values whose attributes histories do not assign; a direct change of Transaction.vin/vout without clear_cache() "
            "is outside the claim (stale_after_raw_mutation states what happens). Module-level constant tables used as "
            "defaults (NETWORKS[...], WORDLIST) are shared by design and only checked to be unchanged after every history. "
            "Liquid blinding / unblinding calls are covered by the translator and its probes, not by the histories.",
            "§5 C19"),
    "C16": ("proof",
            "Lean 4 theorems (GF(256) field + Mathlib Lagrange uniqueness, Feistel inverse, RS1024 linearity and GF(2) rank "
            "checks, text round trip, refusal logic; all inputs) + model/spec/implementation correspondence",
            "Props/C16.lean proves about the model of slip39.py, for every HMAC with >= 4 output bytes and every Feistel round "
            "function returning the requested length (SHA-256/PBKDF2 are parameters): the exp/log tables are the powers of 3 in "
            "GF(2)[x]/(x^8+x^4+x^3+x+1) and table multiplication is the standard's carry-less multiplication (all 65 536 pairs, "
            "kernel-evaluated), which with XOR forms a Mathlib Field; ShareSet.interpolate (log sums, 'log 0 = 0' trick) is the "
            "value of Mathlib's Lagrange.interpolate and equals the executable SLIP-0039 Interpolation; split_secret (k >= 2) is "
            "SplitSecret (k-2 random shares, digest share at 254, secret at 255) and all n shares lie on polynomials of degree < k; "
            "ANY collection of >= k distinct shares recovers the secret (raw level and through the whole pipeline generate_shares "
            "-> mnemonics -> parse -> ShareSet checks -> grouping -> interpolation -> digest -> decrypt, every 1 <= k <= n <= 16, "
            "128/256-bit secrets, passphrase, exponent < 32, identifier < 2^15, random tape); the n mnemonics are pairwise "
            "distinct (also for k = 1 after the fix); any share set with fewer shares than a threshold >= 2 is refused; whatever "
            "recover_secret returns satisfies the digest equation; whatever ShareSet() accepts has one id / exponent / group "
            "threshold / group count / length and no duplicate indices; decrypt(encrypt x) = x = encrypt(decrypt x) and _crypt "
            "equals the standard's Feistel cipher; parse(mnemonic s) = s and parse accepts exactly the printed format; RS1024 "
            "create => verify, embit's polymod with its ten constants equals the Reed-Solomon code (x-a)(x-a^2)(x-a^3) over "
            "GF(1024), and two verifying sequences of <= 33 words that differ in at most 3 positions are equal (5 456 "
            "kernel-evaluated GF(2) eliminations) - so every 1-3 word substitution of a 20- or 33-word share is rejected. "
            "Tie to the repo each run: tables, polymod/checksum, interpolate, split_secret, recover_secret, _crypt, "
            "Share.parse/mnemonic, generate_shares and recover_mnemonic are run on embit (randint injected from the seeded tape) "
            "and on the native Lean model and executable spec; the property predicate is also evaluated directly on embit "
            "(>= k subset must recover, < k subset must not return anything, n distinct shares, mixed sets / corrupted digest / "
            "1-3 word substitutions / foreign customisation strings must be refused, accepted text must re-encode to itself), "
            "exhaustive subsets for n <= 6, all single-word substitutions of sampled 20- and 33-word shares, official vectors "
            "from tests/tests/test_slip39.py. "
            "Props/C16X.lean (deepening) proves in addition: Share.mnemonic s = the standard's encodeShare (bit-list layout "
            "id(15) ext(1) e(4) GI(4) Gt-1(4) g-1(4) I(4) t-1(4), zero padding, value bits, ten-bit words, RS1024) of the fields of "
            "s for every well-formed share with exponent < 16, and the data words agree for every exponent < 32; Share.parse = "
            "the standard's decodeShare on EVERY word sequence (words < 1024) whose extendable-backup bit is 0, in both directions "
            "of the field mapping (same refusals, same fields), hence decodeShare(encodeShare f) = f and parse(encodeShare f) = s; "
            "embit keeps ONE five-bit exponent field (extendable flag + 4-bit exponent of the current text) and always uses the "
            "customisation string 'shamir': at exponent 16 its text differs from the standard's in the checksum only and each "
            "side refuses the other's text (theorem extendable_flag_differs, kernel-evaluated; an observation, safe refusal). "
            "Two-level recovery: for every list of well-formed shares (exponent < 16) that is a valid set in the sense of the "
            "standard (one id/exponent/GT/G/length, group indices < G, exactly GT groups, in each group one member threshold, "
            "distinct member indices and exactly that many shares) ShareSet(shares).recover(passphrase) equals the standard's "
            "combination (Spec/Slip39Groups.lean: RecoverSecret(T_i) per group in ascending group index, RecoverSecret(GT) on the "
            "group shares, decryption), both failing together on a bad digest - every HMAC/PBKDF2; a set whose group indices "
            "lie in fewer than GT (>= 2) values is refused; a set containing a group with fewer shares than its member "
            "threshold is refused (also when GT = 1 and another group is complete); and two-level generate-then-recover: for "
            "group shares = split_secret(ems, GT, G) and member shares = split_secret(group share, T_i, N_i) (any tapes), every "
            "list of distinct shares with at least GT groups present and every present group at or above its member threshold "
            "- exact sets and the supersets the standard calls invalid - is accepted and recover returns decrypt(ems). The check builds exact and non-exact "
            "two-level sets from embit's own split_secret every run and compares embit, the model and the spec ops "
            "slip39.validset.spec / slip39.combine.spec.",
            "Only corresponded, not proved: shares with the extendable flag (not supported by embit, refused at the checksum), BIP39 conversion of the "
            "secret (C15), word <-> index lookup. The subset sweeps use a cheap stand-in for PBKDF2 patched into "
            "embit.slip39.hashlib (theorems are generic in it); real PBKDF2-HMAC-SHA256 runs on fewer cases and the vectors; the "
            "Lean reference HMAC/PBKDF2 is validated against hashlib by the same runs. 'Bad digest refused' is decision logic: a "
            "random corruption passes the 4-byte digest with probability 2^-32; threshold 1 has no digest by design; a wrong "
            "passphrase yields a different secret by design. Fixed defects: D23 (k = 1 returned one share), D37 (mnemonics with "
            "more than 8 padding bits accepted), D38 (superfluous zero word for 160/320-bit shares). Trusted: Lean kernel + "
            "propext/Quot.sound/Classical.choice, the harness, CPython/hashlib.",
            "§5 C16"),
    "C07": ("proof",
            "Lean 4 theorems (strict-DER codec, canonical form, grinding loop, ECDSA / BIP340 correctness relative to an explicit "
            "group-law hypothesis, RFC 6979) + model/implementation correspondence under both secp256k1 backends",
            "Props/C07.lean proves for all inputs: the DER parser accepts exactly BIP66 (round trip, uniqueness of the encoding, "
            "length bounds 70/71/72), Signature objects survive parse/serialise, the signer only returns in-range low-S pairs "
            "(<= 71 bytes), the grinding loop makes <= 200 attempts and returns a <= 70-byte signature unless exhausted, signing is "
            "a function of (key, message, extra data); relative to the hypothesis EcLaws (group of prime order n with the stated "
            "coordinate laws - satisfied by a real 31-point curve in ToyCurve.lean, assumed for secp256k1): ECDSA sign-then-verify "
            "and BIP340 sign-then-verify succeed at the key.py level and at the binding level (incl. grinding), every alteration of s "
            "is rejected when only +-R reduce to r (flip_s_rejected); the nonce equals libsecp256k1's RFC 6979 variant for every input "
            "and RFC 6979 proper for message values < n (partial: witness rfc6979_differs_ge_n, known finding C07-KF1). Failure under "
            "EVERY other message/key is unforgeability and is not claimed: the check exercises all single-bit alterations of signature, "
            "message, key and DER encoding under embit (both backends) and under independent Lean SEC 1 / BIP340 verifiers. Known "
            "finding C07-KF2: for message values 0 mod n the negated key verifies (property of ECDSA, theorem neg_key_verifies_z0).",
            "Trusted: Lean kernel + propext/Quot.sound/Classical.choice; EcLaws for secp256k1 (hypothesis); the Python harness; CPython, "
            "hashlib, libsecp256k1. The Lean SHA-256/HMAC/secp256k1 used by the driver are validated against embit by every run."
            " EcLaws / KeyLaws (the group laws of secp256k1: prime group order n, every point a multiple of G, coordinate and parity laws) are HYPOTHESES of these theorems, never axioms; in Lean they are inhabited only by toy curves (non-vacuity). For the real curve they are mathematics this development does not prove (it needs point counting / Hasse, absent from Mathlib): the executable Lean curve arithmetic is tied to libsecp256k1 and embit only differentially, on every run.",
            "§5 C07"),
    "C08": ("proof",
            "Lean 4 theorems (model of py_secp256k1 = contract of the wrapped libsecp256k1 function, all byte inputs) + three "
            "correspondences (model vs py, contract vs ctypes, py vs ctypes) with a sacrificial worker process",
            "Props/C08.lean proves `same bytes or both reject` for ALL byte-string arguments for 24 of the 26 shared binding functions: "
            "seckey verify/negate/add/tweak_add, compact / DER / recoverable codecs, normalize, pubkey create/parse/serialize/add/"
            "tweak_add unconditionally (n odd where the low-S rule is involved); pubkey negate, x-only conversion, keypair create, "
            "schnorrsig sign/verify relative to EcLaws; ecdsa_verify unconditionally; parse_der: py accepts exactly what libsecp parses to a "
            "verifiable pair, and verdict_agree: a DER encoding is accepted (parse+verify) under py iff under libsecp; ecdsa_sign partial "
            "(away from r=0/s=0 on the first RFC 6979 candidate, probability ~2^-256; witness on a toy group). Props/C08X.lean adds the "
            "two remaining functions, so all 26 are covered by theorems: ecdsa_recover in full relative to EcLaws (py's u1*R - u2*G "
            "over its own candidate list followed by re-verification = SEC 1 4.1.6 r^-1(sR - zG) by recovery id, for ALL 65-byte "
            "structures, messages and ids, incl. r=0, s=0, r or s >= n, id >= 4, r+n >= p, abscissa off the curve, recovered point at "
            "infinity; the re-verification is proved never to reject); ecdsa_sign_recoverable PARTIAL: py searches the id by trial "
            "recovery and an exception leaves the loop, libsecp computes it from the nonce point; equal away from the ecdsa_sign "
            "region and the explicit decidable region recidSearchSafe = false, i.e. x(R) >= n (ids 2/3, ~2^-128) or id 1 with "
            "2z + r*d = 0 mod n (~2^-256), with FiniteMultiples (aG finite for 0<a<n) as extra hypothesis; three witness theorems "
            "on the 31-point curve over F_43 (py raises / contract answers id 3; wrong first candidate recovers infinity; a lucky "
            "x(R) >= n case where both agree). On secp256k1 the region cannot be reached by signing (needs a nonce with x(R) >= n); "
            "harness/demo_c08x_recid_search.py shows the loop raising AttributeError on the real code for a valid signature "
            "with x(R) = n+7 when the two secret-dependent inputs are stubbed. The contract itself (my reading of secp256k1.h + the wrapper) "
            "is validated differentially against the real library on every run, and py vs ctypes are compared directly on the boundary "
            "pool; 14 genuine divergences (incl. three interpreter aborts) were found and repaired by fixes/01..14. Known finding C08-KF1: "
            "in-place variants on an immutable bytes argument.",
            "Trusted: Lean kernel + standard axioms; EcLaws (hypothesis, non-vacuous); libsecp256k1 is a black box (contract validated "
            "differentially, ~3.8k cases quick / 55k thorough); the harness and its worker process; nonce_function arguments are not compared."
            " EcLaws / KeyLaws (the group laws of secp256k1: prime group order n, every point a multiple of G, coordinate and parity laws) are HYPOTHESES of these theorems, never axioms; in Lean they are inhabited only by toy curves (non-vacuity). For the real curve they are mathematics this development does not prove (it needs point counting / Hasse, absent from Mathlib): the executable Lean curve arithmetic is tied to libsecp256k1 and embit only differentially, on every run.",
            "§5 C08"),
    "C11": ("proof",
            "Lean 4 theorems (codecs are exact inverses, decoders accept exactly the valid encodings, GF(2) rank proofs of 4-error "
            "detection and of the unique cross-variant neighbour) + model/implementation correspondence + constants re-extracted "
            "from the loaded module",
            "Props/C11.lean, Props/C11Detect.lean and Props/C11X.lean prove, for all inputs and every hash function: base58 "
            "decode(encode b)=b for every byte string and encode(decode s)=s for every accepted string, the decoder accepts exactly "
            "the strings over the alphabet and exactly the specified encodings; Base58Check decode accepts exactly the Base58Check "
            "texts; convertbits 8->5->8 is the identity; the bech32 polymod step is XOR-linear, create/verify is an identity for "
            "every hrp and data and the checksum is unique; bech32_decode(bech32_encode)=id; bech32.encode yields the BIP173/BIP350 "
            "text for every valid (hrp, version 0-16, program 2-40 bytes); bech32.decode(hrp, s) returns (ver, prog) IF AND ONLY IF "
            "s is a valid BIP173/BIP350 segwit address for hrp with that version and program, in any permitted spelling (all lower "
            "or all upper case; C11X.segwit_decode_iff); Script.address on the five standard scripts equals the specified "
            "Base58Check/BIP173/BIP350 text and address_to_scriptpubkey(address(s))=s for every network of a table with disjoint "
            "one-byte prefixes (embit's table, re-extracted each run, is checked to be such). Completeness "
            "(C11X.to_script_iff): address_to_scriptpubkey yields script sc for string s IF AND ONLY IF s is exactly the "
            "Base58Check address of the p2pkh/p2sh script sc on a table network, or s is up to whole-string case the "
            "BIP173/BIP350 address of the p2wpkh/p2wsh/p2tr script sc on a table network, is not mixed case and its part before "
            "the first '1' equals the table HRP literally; for a table whose HRPs all contain a lower-case letter (embit's does, "
            "by decide) this is: s is EXACTLY the canonical address text (to_script_iff_exact), so every other spelling — the "
            "all-upper-case one that bech32.decode accepts and BIP173 allows, and every mixed-case one — raises "
            "(noncanonical_spelling_rejected, upper_case_spelling), as do valid v2-v16 addresses, v1 programs that are not 32 "
            "bytes, wrong checksum/variant, bad lengths, unknown prefix or HRP. Error detection: a kernel-evaluated GF(2) rank "
            "computation (522 decide+kernel checks covering all 109 736 placements of four error positions in an 89-symbol "
            "window, shift invariance for the rest) proves that two bech32 strings accepted with the same variant and hrp that "
            "differ in at most four characters are equal up to case. Cross-variant neighbours, characterised (C11X, a second "
            "kernel-evaluated rank computation: 184 decide+kernel checks over all 30 856 placements of three further error "
            "positions beside the version symbol in a 59-symbol data part, tables verified in Lean against the model): two "
            "59-symbol words whose polymods differ by BECH32 xor BECH32M, whose first symbols differ by XOR 1 and that differ in "
            "<= 4 positions differ by ONE fixed pattern (version symbol, offsets 45/36/16 from the end xor 22/31/25); hence, HRP "
            "untouched and same length, a string within <= 4 substitutions of a p2wpkh address (not equal up to case) is NEVER "
            "accepted (cross_variant_p2wpkh_none), and of a p2wsh/p2tr address is accepted only if it is (up to case) `neighbour a` "
            "(cross_variant_characterised); conversely `neighbour a` is the canonical address of a 32-byte program of the other "
            "type, exactly four substitutions away, and is accepted with that script (cross_variant_neighbour_accepted); for "
            "embit's table: accepted <=> s' = neighbour a (cross_variant_iff). The model follows embit after "
            "fixes/c11-address-decoding-strict.diff and is tied to the repository by running embit and the native Lean driver "
            "on the same inputs each run (all five script types x all NETWORKS entries, exhaustive single substitutions, "
            "sampled 2-4, hostile strings with valid checksums; per sampled segwit address the upper-case and a mixed-case "
            "spelling and the constructed neighbour, which must be the proved pattern; in thorough tier every weight-<=4 "
            "cross pattern is enumerated with embit's own polymod); the Lean spec encoders are the oracle for address texts.",
            "Not proved (stated as GOAL lines): detection when HRP characters change two symbols each beyond four symbols in "
            "total (and cross-variant neighbours whose substitutions touch the HRP); cross-variant neighbours at the level of "
            "bech32.decode alone for data parts other than 59 symbols or version changes other than 0<->1 (address_to_scriptpubkey "
            "cannot yield those). Corresponded only: convertbits for widths other than 8/5, bech32_polymod on raw values, "
            "script_type on non-standard scripts, raise-versus-None of address_to_scriptpubkey. Modelled deviations that C11 does "
            "not forbid (now theorems, not findings): all-upper-case segwit addresses and valid v2-v16 addresses are rejected by "
            "address_to_scriptpubkey; an unknown Base58 version byte returns None. Trusted: Lean kernel + "
            "propext/Quot.sound/Classical.choice; harness generators; CPython/hashlib (driver SHA-256 validated against hashlib "
            "each run); python str modelled as Unicode scalar lists.",
            "§5 C11"),
    "C02": ("proof",
            "Lean 4 theorems about an executable model of the whole of PSBT.sign_with / PSBTView.sign_with (frame, authorised + controlled key, validity relative to signer laws, count, completeness; policy and digest dispatch) + whole-PSBT correspondence with real crypto + independent Lean signature verification against the consensus digest",
            "Props/C02.lean proves for every caller flag, every per-input flag (all naturals) and both input kinds that an input is "
            "signed exactly when its flag is authorised (ALL/DEFAULT interchangeable, None = whatever the PSBT requests), that it is "
            "signed with the input's effective flag, that a caller authorising ALL/DEFAULT never yields a weaker flag, and that the "
            "digest algorithm and BIP143 script code chosen for P2PKH, P2SH, P2WPKH, P2SH-P2WPKH, P2WSH, P2SH-P2WSH and P2TR scopes "
            "are the consensus ones. Props/C02X.lean proves, about Model/SignWith.lean (PSBT.sign_with: loop over inputs, fingerprint / "
            "origin-prefix / derived-key matching of BIP32 and taproot derivation entries, the signer's own key in the script, taproot "
            "key path with tweak and script-path leaves, descriptor = all its private keys, the counter with its set of signed slots; "
            "after fixes c02x-01 (commit 0b9895a) and c02x-02) and "
            "Model/SignWithView.lean (PSBTView.sign_with, after fix c02x-03), for ALL PSBTs, signers (key, HD key, descriptor key with / "
            "without origin, descriptor), authorised flags and ALL environments (BIP32 derivation, public keys, hashes, taproot tweak, "
            "ECDSA and Schnorr signing and Python's set iteration orders are parameters): (a) frame - globals, outputs, number of "
            "inputs and every input field except partial_sigs / taproot_sigs / final_scriptwitness are unchanged, no map entry "
            "disappears, old keys keep their order, a slot not written keeps its content (an existing entry under a key that signs IS "
            "replaced - witness theorem); (b) every new slot content was written for a key of the signer on an input whose flag the "
            "policy authorises (C02's rule) by a key the signer controls there (own key in script / matching derivation entry whose path "
            "derives exactly that point / tweaked key in the scriptPubKey / key in a leaf script); (c) under SigLaws (a signature "
            "verifies under the signer's public key - what C07 proves of the concrete signers relative to EcLaws) every new entry "
            "verifies under the key it is filed under against PSBT.sighash of the PSBT as handed in, flag byte appended (omitted for "
            "taproot DEFAULT), and that digest is the BIP341 / BIP143 / legacy consensus digest (composition with C01 and C02's "
            "dispatch); (d) the counter equals the number of DISTINCT slots (input, key[, leaf]) the call files a signature under "
            "(count_eq_slots, full; a slot written twice in one call counts once) and, under the explicit hypothesis that no write "
            "stores a value its slot held before the call, the number of slots whose content "
            "differs (count_eq_added; witness: re-signing returns n and adds nothing - the behaviour the repo tests pin, not a finding); "
            "(e) every key the signer controls on an authorised input has an entry afterwards. The stream variant is proved "
            "to sign exactly the scopes the in-memory variant produces, to return the same counter and to raise iff it does "
            "(view_eq_memory); the bytes written are the signature fields of those scopes, and (a)-(e) are also proved of it directly. "
            "The key-validity hypothesis of (c) is proved of every PSBT PSBT.parse accepts. Correspondence: sign.run / "
            "sign.view run the models over the driver's concrete secp256k1 / SHA-256 / RIPEMD-160 / HMAC-SHA512, so the WHOLE resulting "
            "PSBT / signature stream (signature bytes included) and the count are compared with embit on generated wallets (9 script "
            "types) and adversarial variants (existing signatures, re-signing, wrong-parity / duplicated / foreign / wrong-path "
            "derivation entries, missing utxo, uncompressed keys, descriptors holding one key twice or mixing public and private keys). "
            "Not proved: SigLaws for the concrete signers as a composed theorem (each added signature is verified on every run by the "
            "independent Lean ECDSA/BIP340 verifier against the Lean consensus digest instead). Three defects found and repaired "
            "(fixes/c02x-01..03).",
            "Trusted: Lean kernel + propext/Quot.sound/Classical.choice; the Lean reference secp256k1/SHA-256 and verifiers "
            "(cross-validated against embit on every run); harness wallet builder and expected-set computation; the type-level "
            "precondition that the signer is a private key object of the modelled kinds; unforgeability is not claimed.",
            "§5 C02"),
    "C05": ("proof",
            "Lean 4 theorems (view offset arithmetic = encoding layout; scope skipping; exact-key lookup; view = parsed PSBT for every accepted byte string in every reader mode; write_to = merge-then-compress in memory, byte level and parse level) + correspondence + view-vs-memory predicate",
            "Props/C05.lean proves for every unsigned transaction, every pair list and every stream prefix/suffix: the counts and "
            "offsets GlobalTransactionView computes (1/3/5/9-byte prefixes), vin(i) / vout(j) by 41-byte strides and output "
            "skipping, locktime and version equal the transaction's; _skip_scope moves exactly over one scope; a value lookup "
            "returns what is stored under exactly that key; update() never drops a field the scope had and an empty extra scope "
            "changes nothing; clear_metadata keeps signatures, final scripts and tx fields in every mode. Props/C05X.lean composes "
            "these with C04: for every byte string the in-memory parser accepts (KEEP_ALL), embedded at any stream offset with any "
            "suffix, the view opens and reports the same version, counts, locktime, tx version, vin/vout and the same input/output "
            "scopes as the parsed PSBT — version 0 (view_refines_parse_v0_partial, excluding v0 streams that carry the v2-only count "
            "keys 04/05, with witnesses that the view misreads those) and version 2 (view_refines_parse_v2_partial, requiring both "
            "count keys, with a witness that the view refuses a stream without them); Proofs/ViewFrame.lean re-proves this "
            "refinement for every reader mode (compress 0/1/2) with offset and first_scope of the view exposed. Props/C05Y.lean "
            "proves the write path for PSBTView.write_to with LISTS of extra input / output streams (View.writeToL; the one-stream "
            "View.writeTo behind the `view.write` op is shown to be its special case): (1) write_to_eq_memory_v0/v2_partial — for "
            "every accepted byte string, stream offset, reader mode, write mode and stream lists, the view writes the original "
            "global scope byte-for-byte followed by the serialised scopes of the PSBT merged (update with the next scope of every "
            "extra stream) and compressed (clear_metadata) in memory, and refuses exactly when the in-memory procedure refuses; "
            "(2) write_to_parses_to_memory_v0/v2_partial — PSBT.parse of what was written IS the in-memory result (every field of "
            "every scope and the global fields), resting on a proved write-then-read round trip for every scope object that was "
            "read from bytes, merged and cleared (invariant InScope.Canon / OutScope.Canon, closed under read_value, update, "
            "clear_metadata). For version 0 the reader takes txid/vout/sequence (value/script) from the unchanged global "
            "transaction, so (2) is stated for restoreTx and equals the in-memory PSBT exactly when the merge left those fields "
            "alone (sameTxFields); witness v0_extra_txid_not_written (an extra stream with a v2-only previous-txid key changes the "
            "in-memory transaction but not the written one; replayed on embit). Each run opens generated PSBTs through PSBTView at "
            "random stream offsets in all three modes and compares everything it reports and writes (0-3 extra streams of each "
            "kind incl. truncated ones, ops view.write / view.writel) with the Lean model, the in-memory procedure (psbt.merge) "
            "with embit's parse+update+clear_metadata+serialize, and evaluates the byte-level and parse-level statements on embit "
            "itself. (1) and (2) hold for every reader mode of the view; in the memory-saving modes 1/2 an in-memory scope also holds "
            "the streamed _utxo/_txhash attributes, which write_to never emits, so there (2) is stated for eraseHidden (the merged "
            "PSBT without them). 'Same signatures' is covered in C02.",
            "Trusted: Lean kernel + propext/Quot.sound/Classical.choice; harness generators; BytesIO seek/read semantics as "
            "modelled (seek past the end allowed).",
            "§5 C05"),
    "C06": ("proof",
            "Lean 4 theorems (streamed reader = parse-then-project; verify only on hash match; verified utxo = previous output; altered prev tx = SHA-256d collision) + correspondence",
            "Props/C06.lean proves for every byte string/scope and every hash function: Transaction.read_vout (memory-saving mode) "
            "returns exactly output idx and the hash of the witness-stripped encoding that the full parser yields, rejecting what it "
            "rejects and out-of-range indices; InputScope.verify succeeds only if the outpoint txid equals the (reversed) double hash "
            "of the supplied previous transaction in both modes and never without previous-transaction data; it changes nothing but "
            "the verified flag; after success the utxo used for fee and sighash is the output of the verified previous transaction "
            "(a contradicting witness_utxo makes verify fail); two previous transactions that differ after witness stripping have "
            "different pre-images, so accepting an altered one is a SHA-256d collision. Each run compares parse+verify+utxo+fee of "
            "embit with the model in all three parse modes on generated PSBTs with structured and byte-level alterations, and "
            "evaluates the property directly against independently built previous transactions.",
            "Trusted: Lean kernel + propext/Quot.sound/Classical.choice; harness generators; collision resistance of SHA-256d is an "
            "assumption (named in the theorem), not proved.",
            "§5 C06"),
    "C17": ("proof",
            "Lean 4 theorems (counted loops and output sizes bounded by the input length on the binary parser models, Bitcoin and "
            "Liquid; termination, linear step count and recursion depth of the descriptor/miniscript/taptree text parser; quadratic "
            "Base58 bound; size bounds for bech32/blech32, mnemonics, shares, keys) + cost correspondence with a counting stream + "
            "runtime monitor of all parse entry points",
            "Props/C17.lean proves on the Lean models of the parsers (tied to embit by the C03/C04/C05/C06 correspondences): all are "
            "total; whatever a count field says a counted loop body runs at most |input|+1 times and a successful parse builds at "
            "most |input| elements (transactions, witnesses, scopes, pairs); an accepted PSBT — also version 2 with attacker-chosen "
            "counts — has at most |input| scopes; taproot leaf-hash counts are bounded by the value length; the streamed previous-tx "
            "reader does no more than the full parser. Props/C17X.lean proves, on the character-level models that C11/C12/C15/C16/"
            "C18/C09-C10 tie to embit: (1) Descriptor.from_string / Miniscript.read_from / TapTree.read_from end by themselves on "
            "EVERY text — the model's fuel |text|+1 is never the reason for a rejection (any larger fuel gives the same result) — "
            "under the hypothesis that the key decoder refuses the empty text (true of PrivateKey.from_wif(''), checked on the real "
            "code every run, proved for the driver's decoders; a witness shows that without it the argument loop of multi(...) "
            "never ends); stream-method calls + recursive read_from calls <= 8|text|+22 and recursion depth <= |text|+1, where "
            "these counts are cost companions of the model (Model/Cost.lean) that the check compares EXACTLY with a counting BytesIO "
            "and wrapped read_from's on the real code (op c17.desc), the two proved bounds being also checked on the real counts; "
            "(2) base58.decode <= (|s|+1)^2 steps (one per byte of the big integer touched) and <= |s| bytes, encode <= 2(|b|+2)^2 "
            "steps and <= 2|b| characters; bech32/blech32 convertbits: |out|*tobits <= |data|*frombits + tobits (the inner while "
            "appends one element per round; Liquid model fuel never used up); bech32_decode sizes (text <= 90 for Bitcoin); "
            "address_to_scriptpubkey <= 34 bytes; (3) BIP39: the bit-packing loop ends within `remaining` rounds, result <= 11 bits "
            "per word (any word list / hash); SLIP39 Share.parse: exponent < 32, value <= 10 bits per word; _crypt depends on PBKDF2 "
            "only through iterations = 2500*2^e, dklen = len/2 (4 calls): a bounded, INPUT-CHOSEN factor (<= 2500*2^31 in the model; "
            "CPython's hashlib refuses e >= 20); interpolate <= share length; (4) Liquid: every element reader consumes >= 1 byte, so "
            "the four counted loops of LTransaction.read_from run <= |input|+1 times; inputs+outputs <= |bytes|; PSET scopes <= "
            "|bytes| (also v2 counts); (5) SEC / secret / extended key / WIF payload parsers read 33|65 / 32 / 78 / 33|34 bytes. "
            "NOT proved (GOAL lines in C17X): cost of post-processing a token once read (split/int()/unhexlify, Miniscript.verify: "
            "structural recursions, no step companion), Python big-integer cost in Number.read_from and Share.parse (quadratic in "
            "digits / words), single-pass loops of bech32_decode / rs1024 / word-list lookups. PARTIAL: CPython's real time and "
            "memory cannot be proved; they are OBSERVED on every run: 36 public parse entry points (binary and text, incl. "
            "descriptors/miniscript, mnemonics, shares, Liquid) on structure-aware hostile mutants and random data up to 64 KiB inside "
            "a sacrificial worker with address-space limit and per-call timer; outcome must be value or ordinary exception within a "
            "time/peak-memory budget linear in the input size; a crash of the worker is a failure. ShareSet.recover is not a monitored "
            "entry point (its PBKDF2 time is chosen by the share's exponent: measured 85.5 s at e=15, i.e. 260 ns/iteration; e=19, the largest CPython accepts, extrapolates to ~23 min).",
            "Trusted: Lean kernel + propext/Quot.sound/Classical.choice; the monitor (tracemalloc peak, perf_counter, RLIMIT_AS); budget "
            "constants are generous (quadratic big-integer/base58 work below 64 KiB passes by design); the cost companions count stream "
            "calls and recursive calls, not CPU time; the descriptor model lets a relative seek before the start of the stream raise "
            "where CPython's BytesIO clamps to 0 (texts 'tr(' and 'sh(' only, rejected either way; excluded from the exact comparison).",
            "§5 C17"),
    "C13": ("proof",
            "Lean 4 theorems (typing judgement, script template and length, all expression trees by structural induction) "
            "+ fact extraction of the class table + model/implementation/spec correspondence",
            "Props/C13.lean proves, for EVERY expression tree over the 23 fragments and 10 wrappers embit supports, in both "
            "contexts (wsh / tapscript leaf), with no depth bound: (1) the model of embit's verify()/type/properties agrees with "
            "the published miniscript type table at every base type (typing_agrees), hence the library accepts an expression "
            "inside a descriptor exactly when it is well-typed with top-level B (sound, complete, accepts_eq_wellTyped; argument "
            "ranges 1<=k<=n<=20 / <=999, timelocks 1..2^31-1, multi only in wsh, multi_a only in tapscript, d: has u only in "
            "tapscript); the rules for pk, pkh, and_n, t:, l:, u:, sortedmulti* are DERIVED in the spec by desugaring to core "
            "fragments; (2) compile() equals the specification's script template serialised with minimal pushes, including the "
            "v: last-opcode folding done on bytes by embit and on opcodes by the spec (compile_eq_template); (3) len() equals the "
            "compiled length for every tree, typed or not (len_eq_compiled). Static class attributes (TYPE, PROPS, "
            "_expected_taproot, MAX_KEYS) are not hand-copied: harness/facts.py re-extracts them from the loaded module into "
            "Generated/MiniscriptTable.lean on every run and the theorems are re-checked against them; the method-resolution "
            "structure the hand model relies on is pinned by structure_as_modelled. The model follows the code after seven small "
            "fixes (fixes/*.diff: D17-D22); theorems old_* show that each old rule violated the table. The tie to /repo: generated "
            "trees are printed as descriptor text for embit's real parser and as tokens for the native Lean driver; accept/reject, "
            "type, properties, compile() and len() are diffed against the model, and embit is compared directly with the "
            "executable spec (accept iff well-typed, script = template, len = compiled length = template length). "
            "DEEPENED (Props/C13X.lean): the context rules hold at depth (multi_family_fits_context, wellTyped_multi_family: an "
            "expression accepted / well-typed in tapscript mentions multi/sortedmulti nowhere, one in P2WSH multi_a/"
            "sortedmulti_a nowhere); the side conditions argsOk / lensOk are discharged for accepted expressions from the SHAPE of "
            "the arguments the parser produces in the context (Ms.parserArgs: SEC keys, compressed or uncompressed in any "
            "mixture, in P2WSH; 32-byte x-only keys in tapscript; 20-byte key hashes; 32/20-byte digests): "
            "accepted_compiles_to_template / wellTyped_compiles_to_template state compile = template and len = compiled "
            "length = template length for both contexts with no further hypothesis; the equal-length condition on sortedmulti* "
            "keys is replaced by the exact one (sorting pushes = sorting keys on these keys, compile_eq_template_exact), "
            "which valid SEC keys of mixed length satisfy, with a witness that it is needed for byte strings that are not keys "
            "(sortedmulti_orders_pushes_not_keys). The check evaluates Ms.parserArgs / argsOkW on every accepted case "
            "(ms.parserargs) and has directed sortedmulti cases over mixed compressed / uncompressed keys.",
            "Trusted: Lean kernel + propext/Quot.sound/Classical.choice; the transcription of the miniscript tables in "
            "Spec/MiniscriptSpec.lean; the Python harness (tree printers, key payloads computed with hashlib). Keys are abstract "
            "byte strings in the theorems; key / xpub / checksum parsing is C12's subject. compile_eq_template assumes pushed "
            "keys/hashes < 76 bytes, thresh k < 2^256 and equal-length keys inside sortedmulti*; len_eq_compiled assumes hash "
            "arguments of the parsed length and non-empty thresh/multi_a (compile() raises there); the C13X end-to-end theorems "
            "assume only Ms.parserArgs (argument shapes; that the parser produces them is corresponded, not proved) and thresh "
            "k < 2^256. Only the type system named in the property is covered (B/V/K/W, z/o/n/d/u): script size / opcode / stack "
            "limits, timelock mixing, duplicate keys and malleability are neither in the property text nor checked by embit, "
            "and are not modelled.",
            "§5 C13"),
    "C15": ("proof",
            "Lean 4 theorems (mnemonic_to_bytes = BIP39 decoding, mnemonic_from_bytes = BIP39 encoding, both round trips, "
            "for every 32-byte hash function and every list of 2048 distinct words) + model/implementation correspondence",
            "Props/C15.lean proves about the model of embit/bip39.py, with SHA-256 any function returning 32 bytes and the "
            "word list any list of 2048 distinct words: the invariant of the bit-packing loop (the bytearray is the "
            "left-aligned concatenation of the 11-bit indices, offset = bit count mod 8); mnemonic_to_bytes equals the "
            "bit-string definition of BIP39 on every word sequence (so a phrase of 12..24 words is accepted exactly when its "
            "length is a multiple of three, every word is in the list and the checksum bits equal the leading bits of the hash "
            "of the entropy - both directions, every checksum bit); mnemonic_from_bytes equals ENT||checksum cut into 11-bit "
            "groups; entropy->mnemonic->entropy is the identity for 16/20/24/28/32 bytes and mnemonic->entropy->mnemonic on "
            "everything accepted; a different phrase with the same entropy bits is refused; the seed is "
            "PBKDF2(phrase, 'mnemonic'+passphrase, 2048, 64) (definitional on the model, PBKDF2 a parameter). The model is tied to "
            "/repo each run by running embit and the native Lean driver on the same phrases/entropies/seeds (English list, "
            "the tests' Spanish list, a permuted list), by checking on the lists actually used the facts the theorems assume "
            "(2048 entries, distinct, no white space, NFKD), and by evaluating the property directly on embit against an "
            "independent hashlib statement of BIP39; the executable PBKDF2-HMAC-SHA512/SHA-256 of the driver are compared with "
            "hashlib. Behaviour outside the property's domain (more than 24 words accepted under the extended rule, entropies of "
            "0..12 and 36..1024 bytes encoded) is modelled and stated as theorems, not reported.",
            "Trusted: Lean kernel + propext/Quot.sound/Classical.choice; the Python harness; CPython/hashlib; str.split and "
            "UTF-8 encoding are modelled (words after split, bytes as given). NFKD normalisation is the caller's business: embit "
            "does none, inputs are generated in NFKD. The seed sentence is definitional on the model; that the PBKDF2 used is the "
            "standard one rests on the correspondence with hashlib and the published vectors, not on a theorem.",
            "§5 C15"),
    "C01": ("proof",
            "Lean 4 theorems (model digest = consensus digest for all tx/index/flag/hash function; PSBTView streaming digests = in-memory digests; PSBTView.sighash = PSBT.sighash = consensus digest under the dispatched script code) + correspondence on 3 entry points",
            "Props/C01.lean proves for every transaction, input index, script code, amount and every SHA-256 replacement that the "
            "model's legacy digest equals Satoshi's algorithm (serialise the modified copy + hash type; uint256 ONE for SINGLE without "
            "output), the segwit digest equals BIP143 and the taproot digest equals BIP341 SigMsg/TapSighash incl. annex, leaf "
            "version, codeseparator position and the error cases, for all 8 (7 for taproot) flags; invalid flags/indices are refused. "
            "Props/C01X.lean proves the PSBT-level entry points: Model.Psbt.sighash (PSBT.sighash: dispatch + Transaction methods on "
            "PSBT.tx) and Model.View.sighash / sighashLegacy / sighashSegwit / sighashTaproot (PSBTView's own streaming copies: "
            "hash_prevouts / hash_sequence / hash_outputs over vin(i) / vout(j) read at offsets) — (1) the view's three digests "
            "equal the Transaction digests whenever its accessors describe the transaction, for every index, flag and argument "
            "incl. refusals; (2) entry_points_agree_v0/v2_partial: for every byte string PSBT.parse accepts (any reader mode), "
            "embedded at any stream offset, PSBTView.sighash = PSBT.sighash for every input, flag and taproot argument (excluded: "
            "the regions of C05X, and for version 2 scopes lacking their transaction fields; witness v0_count_key_sighash_differs "
            "replayed on embit); (3) psbt_sighash_legacy/segwit/taproot_consensus and all_entry_points_*: what all three entry "
            "points yield is the consensus digest of PSBT.tx under the script code Model.sighashDispatch selects (composition with "
            "the dispatch_* theorems of Props/C02: p2wpkh_all_entry_points, p2pkh_all_entry_points). Finding fixed on the way "
            "(C01X-D46): a PSBTv2 without PSBT_GLOBAL_TX_VERSION was hashed with nVersion 2 by PSBT.sighash and 0 by "
            "PSBTView.sighash. Each run ties the model to embit by comparing Transaction, PSBT (v0/v2, parsed and constructed) and "
            "PSBTView (v0/v2 at stream offsets) digests with the Lean model and, independently, with the Lean consensus spec on "
            "generated transactions x all indices x all flags, and PSBT.sighash / PSBTView.sighash (reader modes 0/1/2, taproot "
            "kwargs, PSBTs with inputs of every script type, v2 without tx version, arbitrary field combinations) with "
            "psbt.sighash / view.sighash / view.sighash.{legacy,segwit,taproot} and with the consensus spec for the input kind the "
            "generator built. Boundary: Model.Psbt.sighash refuses when some scope lacks its transaction fields (PSBT.tx undefined) "
            "whereas Python fails only if the algorithm touches that input; not exercised (BIP370 requires the fields).",
            "Trusted: Lean kernel + propext/Quot.sound/Classical.choice; harness generators; CPython/hashlib; my transcription of "
            "Core's SignatureHash/BIP143/BIP341 in Spec/Consensus.lean (corroborated by embit's recorded signing vectors in C02). "
            "Digest memoisation across calls is C19's subject.",
            "§5 C01"),
    "C04": ("proof",
            "Lean 4 theorems (KV framing round trip/soundness, per-scope losslessness and duplicate-key rejection, whole-PSBT decomposition, v0 unsigned-tx reconstruction; serialise-then-parse identity on well-formed objects and well-formedness of every parse result; rejection rules; PSBTv2 transaction = BIP370 transaction) + correspondence",
            "Props/C04.lean proves for every byte string, key validator and hash function (KEEP_ALL mode, no size bound): a PSBT that "
            "parses is exactly the canonical framing of its global/input/output pairs (so truncation, missing separators and trailing "
            "bytes are refused); every pair of every scope, known or unknown, is present with identical bytes in what write_to emits; "
            "no key occurs twice in an accepted input/output scope; the global pairs incl. explicit version are kept; for version 0 "
            "the transaction rebuilt from the scopes is bit-identical to the global unsigned transaction; bad magic is refused. "
            "Props/C04X.lean proves the other direction and the rejection rules: for every PSBT object satisfying the explicit, "
            "decidable well-formedness predicate PsbtWF (wire size bounds, the key validity checks read_value performs, no duplicate "
            "keys, unknown keys not colliding with typed keys, streamed-parse fields unset; for version 0 the fields that come from "
            "the global transaction) write_to succeeds and parse(write_to(p)) = p field for field, versions 0 and 2 (ser_parse; "
            "per scope: input_/output_scope_ser_parse, *_read_ser); every value parse returns is well-formed (parse_wf), hence "
            "parse∘ser∘parse = parse and ser is injective on well-formed objects; standalone rejection theorems about parse: global tx "
            "in a version-2 PSBT, missing global tx otherwise, duplicate global key (all three in every compression mode), duplicate key "
            "in any scope, scope count different from the global transaction's (v0) or from the count fields (v2), PSBTv2 "
            "transaction-field keys inside a version-0 scope (KEEP_ALL); and for version 2 the transaction PSBT.tx reconstructs equals, "
            "as an Option, the transaction an independent BIP370 spec (Spec/Bip370.lean, incl. the full lock-time rule) assigns to the "
            "RAW maps (v2_tx_eq_bip370_partial) under two explicit decidable hypotheses with decide-proved witnesses replayed on embit: "
            "no input carries a required time/height lock time (embit implements only the fallback-lock-time case: "
            "required_locktime_ignored) and the global tx version is present (embit substitutes 2: missing_tx_version_defaults_to_2). "
            "Each run ties the model to embit field by field (parse in 3 compression modes, re-serialisation, reconstructed tx) on "
            "generated PSBTs over every BIP174/370/371 field type and on structural corruptions, compares embit's PSBTv2 transaction "
            "with the BIP370 spec evaluated on the raw maps (op psbt.bip370), replays the named witnesses and one instance of each "
            "rejection rule on embit, and evaluates the property directly on embit with an independent KV splitter and an "
            "independently built unsigned transaction. Only corresponded, not proved: the compression modes 1/2 of parse (theorems "
            "about scopes are KEEP_ALL), the text encodings (hex/base64). No GOAL remains.",
            "Trusted: Lean kernel + propext/Quot.sound/Classical.choice; harness (generator, independent splitter/builder); public-key "
            "validity is abstract in theorems (KeyOps) and concrete (own secp256k1) in the driver; PSBTv2 required-locktime fields are "
            "treated as unknown keys by embit (excluded by hypothesis in the BIP370 theorem).",
            "§5 C04"),
    "C03": ("proof",
            "Lean 4 theorems (parser = inverse of wire encoding, all inputs) + model/implementation correspondence",
            "Props/C03.lean proves, for every transaction and every byte string with no size bound, that the model's "
            "serialiser equals the Bitcoin wire encoding (BIP144 form iff a witness is present), that the txid is the "
            "reversed SHA-256d of the stripped encoding (any hash function), that parse∘serialise is the identity on "
            "well-formed transactions and that the parser accepts exactly the wire format (so truncations, trailing bytes, "
            "non-minimal prefixes and superfluous witness sections are rejected). The model is tied to /repo by running "
            "embit and the native Lean driver on the same generated transactions and mutated encodings each run; because "
            "the model is proved correct, any disagreement is reported with the input as replay.",
            "Trusted: Lean kernel + propext/Quot.sound/Classical.choice; the Python harness (generators, token canonicaliser); "
            "CPython/hashlib; the executable Lean SHA-256 is validated against hashlib by the same correspondence. "
            "Lengths >= 2^32 (9-byte prefixes) are covered by the theorems only.",
            "§5 C03"),
    "C09": ("proof",
            "Lean 4 theorems (HDKey.child = BIP32 CKDpriv/CKDpub, derive = fold, neutering and taproot tweak commute, tweak = BIP341 "
            "output key, path text round trip; abstract curve with explicit law hypothesis, abstract hashes) + model/"
            "implementation/spec correspondence on both secp256k1 backends with chosen HMAC / TapTweak outputs",
            "Props/C09.lean proves about the model of bip32.py / ec.py, for EVERY curve record, HMAC, HASH160, tagged hash and "
            "Base58Check text function (group structure only through the explicit hypothesis EcLaws: commutative group, nG = 0 exactly, "
            "x(-P)=x(P), parity flips, lift_x is the even-Y preimage; hash output lengths as hypotheses): child() of a private / public "
            "parent equals CKDpriv / CKDpub for every key, chain code and index < 2^32 incl. the invalid cases (I_L >= n, zero key, "
            "point at infinity: embit raises), wrapped in the bookkeeping (same version, depth+1, fingerprint of the parent key, child "
            "number); the hardened flag only adds 2^31; indices >= 2^32 and hardened steps from a public key are refused; a child of a "
            "depth-255 key cannot be built (raises); derive(path) is the left fold of child and a text path is parse_path then derive; "
            "parse_path(path_to_str p) = p for every integer list; (child k i).to_public() = child (k.to_public()) i for all i < 2^31 "
            "in key, chain code, depth, fingerprint, child number, version and in the failure cases, with the version test discharged for "
            "every SLIP-132 version of the generated NETWORKS table and the real Base58Check digits (version bytes fix text[1:4] for all "
            "payloads, proved by bounding the leading base-58 digits); pub(priv.taproot_tweak h) = pub(priv).taproot_tweak h for both Y "
            "parities, both compression flags and every h incl. empty; the tweaked key has even Y and is BIP341's "
            "Q = lift_x(x(P)) + H_TapTweak(x(P)||h)G, the private result is taproot_tweak_seckey's up to the even-Y normalisation. "
            "Props/C09X.lean composes the step theorems over paths of ANY length (induction): derive k p IS the BIP32 fold "
            "CKDpriv(...CKDpriv(m,a)...,z) resp. CKDpub along p in key, chain code, depth (+|p|), parent fingerprint (of the last "
            "parent), child number (last index) and version, failing exactly when the fold hits an invalid key "
            "(derive_eq_spec_priv/_pub against Spec/Bip32Path.lean = Spec.derivePriv/derivePub + the serialization bookkeeping; "
            "derive_eq_spec / derive_eq_spec_pubkey are the key + chain code projections), for every path of indices in [0,2^32) "
            "within depth 255; both side conditions are sharp (derive_index_range, derive_depth_overflow: refused for every key); "
            "derive(p).to_public() = to_public().derive(p) for every non-hardened path incl. all failure cases "
            "(neuter_commutes_path, and _table over the generated versions without text-layer hypothesis), and BIP32's own "
            "N(CKDpriv..) = CKDpub(N..) along paths with bookkeeping (spec_neuter_commutes, _node). "
            "The model follows the code after three small fixes (fixes/k02, k04, k05); theorems old_* show what the old code did. "
            "Tie to /repo on every run: generated parents (both parities, special scalars, all versions, depth 0..255) x indices "
            "{0,1,2^31-1,2^31,2^32-1,...} x hardened flag, HMAC outputs forced to I_L in {0,1,n-1,n,n+1,2^256-1,n-k,...} by patching "
            "bip32.hmac, list and text paths to depth 255 and beyond, merkle roots {empty,00..,ff..,random,odd lengths}, TapTweak hashes "
            "forced to {0,1,n-1,n,...,zero sum}, the BIP32 vectors of the repository and the BIP341 wallet vectors, every case under the "
            "ctypes AND the pure-Python backend, compared with the Lean model and with the Lean BIP32 / BIP341 specs (every in-range derive case also against "
            "the spec path fold with bookkeeping, op spec.derivenode); commutation, fold, "
            "refusal, parity and round trip are also evaluated directly on embit.",
            "Trusted: Lean kernel + propext/Quot.sound/Classical.choice; EcLaws for secp256k1 is a stated mathematical hypothesis "
            "(a seven-element toy curve shows it is satisfiable); my transcription of BIP32 CKD and the BIP341 reference code "
            "(corroborated by the published vectors through the spec ops); the Python harness incl. the hmac / tagged_hash patches; "
            "libsecp256k1's contract for the five binding functions used (seckey_verify, pubkey_create/parse/serialize, "
            "privkey_add/negate, pubkey_add) is modelled, C08 compares it with both backends. embit refuses a TapTweak hash of 0, "
            "BIP341 only t >= n (probability 2^-256; stated in taproot_eq_bip341). Path text: ASCII, CPython's 4300-digit limit not "
            "modelled; parse_path's leniency (int() accepts '-1', '1_0', ' 1') is modelled and noted, not judged. BIP32's 'use the "
            "next index' after an invalid child is the caller's business."
            " EcLaws / KeyLaws (the group laws of secp256k1: prime group order n, every point a multiple of G, coordinate and parity laws) are HYPOTHESES of these theorems, never axioms; in Lean they are inhabited only by toy curves (non-vacuity). For the real curve they are mathematics this development does not prove (it needs point counting / Hasse, absent from Mathlib): the executable Lean curve arithmetic is tied to libsecp256k1 and embit only differentially, on every run.",
            "§5 C09"),
    "C10": ("proof",
            "Lean 4 theorems (SEC parser = strict SEC decoder on all byte strings, SEC / WIF / xkey round trips over the generated "
            "network table, x-only = 32-byte X, one rejection theorem per class) + model/implementation/spec correspondence on both "
            "secp256k1 backends with a structured corruption stream",
            "Props/C10.lean proves about the model of ec.py / bip32.py / base.py, for every curve record (EcLaws as explicit hypothesis "
            "where a round trip needs it), every hash and every Base58Check codec (law dec(enc b) = b as hypothesis for the text round "
            "trips): sec() is the SEC1 encoding and PublicKey.parse is EXACTLY the strict SEC decoder on every byte string (02/03+X on "
            "the curve, 04+X+Y on the curve, nothing else: no hybrid keys, no other length); parse(sec k) = k incl. the compression flag; "
            "x-only keys of public and private keys are the 32-byte X coordinate for both compression flags; wif() is "
            "Base58Check(version||secret||[01]) and from_wif(wif k) returns the secret, the flag and a network with the same version byte "
            "(exact for mainnet; test/regtest/signet share 0xef); serialize() is the BIP32 78-byte format and parse(serialize k) = k in "
            "version, depth, fingerprint, child number, chain code and key (also through the text form), and for EVERY network and each "
            "of its ten version prefixes of the generated table, with the real Base58 digits and any 4-byte checksum, every valid key of "
            "the matching kind and every depth/fingerprint/index is accepted by the constructor and survives (xkey_roundtrip_table); "
            "rejections, each for every input of the class: SEC wrong length / prefix incl. 06,07 / prefix-length mismatch / off-curve X "
            "/ (X,Y) not a point; private key wrong length / scalar 0 or >= n; WIF bad checksum / length / flag / scalar / unknown "
            "version; extended key < 78 or > 78 bytes / bad checksum / version of the wrong kind for the key field / depth 0 with index / "
            "depth 0 with parent / scalar 0 or >= n / invalid public key; the constructor refuses uncompressed keys. Props/C10X.lean "
            "proves the converse direction for EVERY decoder — whatever is accepted re-encodes to exactly the input, so no key has a "
            "second accepted spelling: HDKey.parse b = k => k.serialize = b (78 bytes, text kind = key kind; xkey_parse_sound, "
            "stream form xkey_read_from_sound, injectivity), HDKey.from_base58 t = k => k.to_base58() = t and from_wif t = k => "
            "k.wif() = t with a valid scalar (wif_parse_sound, xkey_text_parse_sound; codec law used in the decoding direction "
            "dec t = b => enc b = t, which is PROVED for the concrete Base58Check layer Model/Base58Check.lean and any checksum "
            "function — base58_decode_canonical: decode s = b => encode b = s, by reading that model as C11's Base58 model through "
            "the character codes — so wif_parse_sound_b58 / xkey_text_parse_sound_b58 carry no text-layer hypothesis), the network chosen by from_wif carries exactly the "
            "text's version byte for every NETWORKS table (wif_network_sound), PublicKey.read_from (key encoding + unread rest = "
            "stream), from_xonly (even-Y compressed key with x-only = input), PrivateKey / PrivateKey.parse. The model follows the "
            "code after fixes k01 (D13), k03, k04; old_xonly_uncompressed_is_64_bytes states the old behaviour. Tie to /repo on every "
            "run: valid keys x {compressed, uncompressed} x all networks x all 40 version prefixes x depths x indices, and their "
            "encodings corrupted by truncation, extension, prefix / version substitution (incl. private version on public key and vice "
            "versa), coordinate substitution (random / off-curve X, X >= p, X+p aliases of small points, Y+1, -Y, Y >= p), scalars "
            "0/n/n+1/2^256-1, bad checksums, flags, depth 0 with parent or index, random bytes, the BIP32 invalid-key vectors; every case "
            "under both backends against the Lean model and the Lean encodings spec; round trips, every must-reject class and "
            "'accepted => re-encodes to itself' (xkeys, every accepted WIF, from_xonly, stream reads) are also "
            "evaluated directly on embit with an independent integer-arithmetic curve test.",
            "Trusted: Lean kernel + propext/Quot.sound/Classical.choice; EcLaws for secp256k1 (hypothesis; toy curve as witness of "
            "satisfiability); the Base58Check law dec(enc b)=b is a hypothesis of the C10 text round trips (C11 proves it for its codec model); the converse law "
            "used by C10X is proved for the concrete layer; that concrete "
            "Model/Base58Check.lean is corresponded with embit.base58 every run; the Python harness. Rejection theorems are about the "
            "model, which the correspondence ties to the code; exception classes are not compared (a truncated xkey raises IndexError, "
            "not an EmbitError). The private key rebuilt by HDKey.parse carries the default network (the 78 bytes carry none)."
            " EcLaws / KeyLaws (the group laws of secp256k1: prime group order n, every point a multiple of G, coordinate and parity laws) are HYPOTHESES of these theorems, never axioms; in Lean they are inhabited only by toy curves (non-vacuity). For the real curve they are mathematics this development does not prove (it needs point counting / Hasse, absent from Mathlib): the executable Lean curve arithmetic is tied to libsecp256k1 and embit only differentially, on every run.",
            "§5 C10"),
    "C12": ("proof",
            "Lean 4 theorems (BIP380 checksum incl. create/verify identity; print-parse round trip of the character-level parser for "
            "all seven descriptor forms; script = BIP380-386 construction from derived keys; to_public / branch commutation) + "
            "model/implementation/spec correspondence + independent script construction",
            "Props/C12.lean proves about the model of descriptor.py / arguments.py / taptree.py / checksum.py / the text parser of "
            "miniscript.py / the script builders of script.py, for EVERY descriptor object, text, index and branch (no bound): "
            "(1) checksum(desc) is BIP380's checksum (streaming loop = descsum_expand + descsum_polymod; every text), add_checksum is "
            "idempotent, and the created checksum passes BIP380's descsum_check (the eight trailing symbols enter the polymod "
            "XOR-linearly; BIP380's own vector raw(deadbeef)#89f8spxm is evaluated in the kernel); (2) print_parse: for every normal "
            "descriptor of the seven forms pkh, wpkh, sh(wpkh), tr(K), sh(M), wsh(M), sh(wsh(M)), tr(K,TREE), from_string(str(d)) "
            "returns d field for field - origins, hex SEC / x-only / WIF / xpub / xprv texts (codec abstract: whatever it prints and "
            "decodes again), steps /n /nh /* /<a;b;..>, wrappers written in one word, thresh/multi lists, nested tap trees, the "
            "read(7)/seek(-k) dispatch - hence print stability and identical scripts of the reparsed descriptor; (3) script_eq_spec: "
            "whenever derive(i,b) succeeds (i < 2^31) script_pubkey() is the script the BIPs prescribe for the form from the public "
            "keys deriveKey(k,i,b) of its key expressions (pkh, wpkh, sh-wpkh, sh/wsh/sh-wsh over the miniscript translation table "
            "incl. BIP383 multi/sortedmulti, tr with BIP341 merkle root - sorted TapBranch - and output-key tweak); sortedmulti is "
            "sorted after derivation; (4) to_public() first, to_public() after, and branch() first never change a derived script. "
            "BIP32 derivation, key codecs, the taproot tweak and hashes are parameters with explicit named hypotheses (KeyLaws: C09 "
            "neutering/tweak laws; KeyNormal.text: the key codec inverts, proved here for hex SEC keys); the driver instantiates them "
            "with executable Base58/BIP32/secp256k1 (validated each run). Each run generates descriptors over every wrapper x key "
            "form x step form x script expression (canonical and variant spellings, character mutations, ~230 texts at the "
            "grammar's edges) and compares parse/print, derive, branch, to_public, scripts and checksums of embit with the model; "
            "independently of the model it evaluates the property on embit: print-parse stability (text, scripts, addresses), "
            "scripts equal to a plain-Python construction from keys derived with embit's bip32 API and to the Lean spec, "
            "to_public/branch invariance, checksums equal to the BIP380 spec. Partial: parse_print_idem (normalisation of "
            "arbitrary accepted text: {a,b}, ' / H, upper-case hex, int() spellings) is a GOAL decided by correspondence and the "
            "variant-spelling predicate only. Observation outside the property as worded (not reported): from_string does not verify a "
            "checksum that is present; the check demands only that such a text parses to the descriptor of its body and "
            "prints with the BIP380 checksum.",
            "Trusted: Lean kernel + propext/Quot.sound/Classical.choice; transcription of BIP380-386/341/67 in "
            "Spec/DescriptorSpec.lean; harness generators and the plain-Python script builder (own secp256k1 for the tweak); "
            "ASCII text only (Python int()/strip accept more Unicode); miniscript typing/compilation is C13's model; addresses "
            "are compared on embit only (C11). script_eq_spec needs argsOk (direct pushes, equal-length keys in sortedmulti: true "
            "for compressed keys). Observations, not findings: uncompressed keys are accepted in wpkh/wsh/tr; script_pubkey() of an "
            "underived descriptor ignores the derivation steps; key-origin path elements are unbounded ints."
            " EcLaws / KeyLaws (the group laws of secp256k1: prime group order n, every point a multiple of G, coordinate and parity laws) are HYPOTHESES of these theorems, never axioms; in Lean they are inhabited only by toy curves (non-vacuity). For the real curve they are mathematics this development does not prove (it needs point counting / Hasse, absent from Mathlib): the executable Lean curve arithmetic is tied to libsecp256k1 and embit only differentially, on every run.",
            "§5 C12"),
    "C14": ("proof",
            "Lean 4 theorems (owns soundness, never-claims, completeness for honest scopes, over every key list / scope / derive "
            "function) + correspondence + independent matcher on embit's own PSBT classes",
            "Props/C14.lean proves about the model of Descriptor.owns / Key.check_derivation / AllowedDerivation.check_derivation "
            "(after fixes/owns-keeps-looking.diff), for every list of keys, every scope (script, both PSBT derivation maps in "
            "order) and every derive-then-script function: owns_sound - True only if the scope has a script of the descriptor's "
            "type and some recorded derivation is the metadata (origin fingerprint + origin path + steps, or own fingerprint + "
            "steps) of an extended key at an unhardened index on an allowed branch whose derived script is the scope's script; "
            "never_claims and its corollaries (script differs, other script type, no script, foreign fingerprints, wrong path incl. "
            "branch element outside the set, hardened index: never True - the code raises there); owns_complete - a scope carrying "
            "the script for (i,b) and the metadata of a ranged key that fixes the branch is claimed whatever other records precede "
            "or follow it (provided none makes derive raise); the descriptor of C12 is an instance (desc_owns_eq, "
            "desc_derive_hardened). old_first_match_rejected_honest_scope shows the repaired defect on the model: the old rule "
            "(first matching record decides) rejected wsh(sortedmulti(2,A/0/*,B/<0;1>/*))'s own branch-1 output. Each run builds "
            "scopes with embit's PSBT classes (input, output, re-parsed) over ranged descriptors of every wrapper with honest, "
            "short-form, single-key, shuffled, foreign, stale, hardened, wrong-path, wrong-branch, mixed and two-map records and "
            "scripts of other indices/branches/descriptors/wrappers, diffs owns() with the model and evaluates soundness (own "
            "matcher), never-claims per class and completeness directly on embit.",
            "Trusted: Lean kernel + propext/Quot.sound/Classical.choice; harness matcher/generators; recorded public keys and leaf "
            "hashes are not read by owns(). Completeness needs: sets without repeated elements, the key's origin fingerprint "
            "differing from its own unless the origin path is empty, no matching record that makes derive raise. Observation: "
            "owns() raises (does not return False) on a matching record with a hardened index.",
            "§5 C14"),
    "C18": ("proof",
            "PARTIAL: Lean 4 theorems for everything that is logic (Elements transaction codec = wire format, PSET proprietary fields "
            "lossless, derivation of every blinding factor, verify()/unblind() decision logic sound, balance relative to explicit "
            "algebraic laws, blech32 / confidential addresses) + model/implementation correspondence + DIFFERENTIAL RUNS on the real "
            "libsecp256k1-zkp for the cryptographic half (observed, not proved)",
            "PROVED (Props/C18.lean, all inputs, no bound): the model's Liquid transaction parser accepts exactly the Elements wire "
            "encoding of well-formed transactions (issuance / peg-in flags in bits 31 / 30 of the index, issuance block, explicit "
            "big-endian or committed value, asset, nonce, the four input and two output witness fields) and parse∘serialise is the "
            "identity; truncations, trailing bytes, unknown flag bytes and superfluous witness records are refused; every key-value pair "
            "of a PSET input / output scope (15 + 12 proprietary fields, unknown proprietary keys, Liquid utxos, all bitcoin fields) is "
            "written back with identical bytes (outputs: under the spelling of the PSET version), a duplicated or wrong-length field is "
            "refused; PSET.blind: the asset / value blinding factor of output i is the tagged hash liquid/abf / liquid/vbf of "
            "txseed||i, the LAST blinded output's factor is the library's blind-sum over exactly the listed values and factors, the ECDH "
            "key is the public key of the tagged hash liquid/range_proof, commitments are the library's functions of exactly these, "
            "unselected outputs are untouched; verify() = True implies every consistency predicate (stated asset+factor or asset proof "
            "against the asset commitment; stated value+factor or exact-value proof against the value commitment, through the verified "
            "generator) was evaluated and held, and the pre-fix logic violated this for value 0 (witness theorem); unblind stores data "
            "only after both commitment equalities; RELATIVE TO THE HYPOTHESIS ZkpLaws (points are a module over the scalars, "
            "commit = v*gen + r*G, generator = H(asset) + r*G, blind-sum returns what it is specified to) the commitments of inputs and "
            "blinded outputs differ by exactly the plain amounts (balance); blech32 created checksums verify (GF(2) linearity, no "
            "bv_decide), blech32 encode/decode and the confidential address of a witness-v0 script round-trip (partial: embit's decoder "
            "ignores the witness version — witness theorem). CORRESPONDED every run: all these models against the real code (codecs on "
            "generated + mutated bytes and the recorded PSETs/transaction; verify()/unblind() under an oracle dictating every library "
            "answer, with the consistency predicate evaluated independently; the real PSET.blind under symbolic library stand-ins; "
            "blech32 / addresses / SLIP-77). ONLY OBSERVED each run in a subprocess on the real C library (never a proof): blind(seed) "
            "twice and in two interpreters gives identical bytes; every blinded output verifies, its range / surjection proof verify "
            "in the library, it unblinds under the recipient key (also through LInputScope.unblind) to exactly value, asset, vbf, abf "
            "and not under another key; pedersen_verify_tally balances (explicit inputs/outputs and fee as v*H); ~40 single-field "
            "falsifications per blinded output (value +-1/:=0/random, asset, abf/vbf bits, swapped or re-computed commitments, "
            "corrupted/absent/foreign asset and value proofs) all make verify() fail; values 0, 1, 2^52-1, 1-3 assets, explicit and "
            "confidential inputs, 1-4 blinded outputs. Four small fixes (fixes/*.diff) precede the model: verify() truthiness (D26), "
            "strict Liquid readers, lossless PSET fields, unblind asserts. Known finding D53 (version-0 PSET drops issuance / peg-in / "
            "output nonce of the global transaction) is reported, not fixed. GOALs: whole-PSET composition, scope-level Nodup, base58 "
            "confidential P2SH addresses.",
            "Trusted: Lean kernel + propext/Quot.sound/Classical.choice; harness generators, oracle / symbolic stand-ins and the "
            "worker; CPython/hashlib. libsecp256k1-zkp is modelled as arbitrary deterministic functions: hiding/binding of Pedersen "
            "commitments and soundness of range / surjection proofs are cryptographic assumptions; that the library satisfies ZkpLaws "
            "is its documented contract, corroborated only by pedersen_verify_tally in the differential runs. verify() does not consult "
            "the output's range_proof / surjection_proof (only asset_proof / value_proof or the factors); those are checked against the "
            "library directly. embit carries unusual prefix bytes of confidential fields verbatim (not validated). The Elements "
            "signature hash is not part of this property.",
            "§5 C18"),
    "C20": ("proof",
        "Lean 4 theorems over all thread counts, program lengths and schedules of a locking-protocol model (serialisability, "
        "no deadlock) + probe-based translator for the binding layer's lock/buffer facts (decide +kernel obligations over "
        "the generated table) + deterministic-scheduler correspondence on real threads",
        "PARTIAL (the GIL, ctypes and the C library are outside the model). "
        "PROVED (Props/C20.lean, unbounded: any number of threads, programs of any length, every schedule = every list of "
        "thread ids, i.e. any preemptions): in the abstract locking protocol — one non-reentrant lock, one shared library "
        "context, native calls that take two scheduler ticks (ctypes releases the GIL), buffers private to a thread or "
        "shared by everybody — a thread that makes native calls only while holding the lock and whose out-buffers are "
        "private (or, if shared, read only inside the lock hold that wrote them) obtains after ANY schedule exactly the "
        "results of the executed part of its program run alone (results_prefix, results_alone, solo_is_run_alone); every "
        "complete schedule gives the results of the serial execution (serialisable, serialisable_of_facts), the serial "
        "schedule completes (serial_completes) and every schedule prefix can be continued to completion (can_always_finish: "
        "no deadlock). Witness theorems show that each hypothesis is needed: a shared out-buffer read after the release "
        "(the schedule T0: rewind…release; T1: rewind…release; T0: copy), its sequential aliasing, and a native call "
        "outside the lock each break serialisability in the model. "
        "EXTRACTED ON EVERY RUN (translator tie, harness/bindprobe.py -> Generated/BindingFacts.lean): every function of the "
        "LOADED embit.util.ctypes_secp256k1 that reaches native code (54 function/argument-variant records, `_init`, and the "
        "module import itself in a fresh interpreter) is called with `_lock` replaced by a recording lock and `_secp` by a "
        "recording proxy; recorded: native symbols, lock held at each native call, which buffers C wrote, whether a buffer "
        "is fresh / the caller's argument / shared (code constant, global, default, or the same object again in the next "
        "call), whether the result still depends on a buffer after the release; `ast` only cross-checks that every "
        "`_secp.<symbol>(…)` call site was executed. Props/C20Facts.lean decides over these facts (decide +kernel, no "
        "axioms): all_probed, facts_consistent, every_entry_locked (the property's second sentence), buffers_fresh, "
        "buffers_private_or_copied, no_reentrant_acquire, and combines them with the protocol theorem: "
        "binding_serialisable (programs of probed binding functions, any threads / lengths / complete schedules). "
        "ONLY OBSERVED (harness/sched.py, real threads, real libsecp256k1): 2-3 threads under a deterministic cooperative "
        "scheduler (sys.settrace line events in the binding module and its immediate callers ec.py, bip32.py, misc.py, "
        "liquid/pset.py, liquid/transaction.py; `_lock` replaced by a cooperative lock) executing direct binding calls, "
        "embit.ec key/ECDSA/Schnorr/tweak/x-only/ECDH operations, Liquid unblinding of the recorded PSET's inputs and "
        "blinded outputs, PSET blinding, on thread-private inputs: one preemption of thread 0 at EVERY traced line (sweeps) "
        "and seeded samples with 2-3 preemptions among 3 threads; each thread's results are compared with the serial run "
        "and, for direct binding calls, with the Lean model's prediction for the same schedule (lock.run); every native "
        "call observed must be under the lock. "
        "DEEPENED (Props/C20X.lean, C20XFacts.lean): FAIRNESS - a schedule is W-fair when in every window of W ticks every "
        "thread still unfinished at the end of the window has been scheduled (a tick spent blocked in front of acquire counts "
        "as scheduled, not as progress); every W-fair schedule of at least W * totalTicks ticks (totalTicks = length of the "
        "serial schedule, a native call counting two) completes and gives the serial results, for all thread counts and "
        "program lengths (fair_completes, fair_serialisable), also for infinite schedules (fair_infinite_completes) and round "
        "robin (round_robin_completes); a schedule that starves the lock holder never completes "
        "(starved_holder_never_completes). FINER MACHINE (Model/LockCtx.lean): the library context has contents (two words "
        "that must match), every native call reads it non-atomically, context writers (the API functions with a non-const "
        "context parameter: context_create / context_randomize ...) rewrite it non-atomically; properly locked programs "
        "still get the serial results after every schedule, the context is consistent whenever no call is in flight, fair "
        "schedules complete (ctx_results_prefix, ctx_serialisable, ctx_consistent, ctx_fair_completes - by a simulation "
        "with the coarse machine); witnesses: one unlocked context writer makes a properly locked reader return garbage, "
        "two unlocked writers leave the context torn for ever, overlapping unlocked readers are harmless in this machine. "
        "Facts: context_writers_locked / context_writers_present (decide over the probed table), "
        "binding_ctx_serialisable, binding_round_robin_completes. Tie: every schedule sent to lock.run is also sent to "
        "lockctx.run; the set of probed functions that WRITE the context by symbol (lockctx.writers: <import>, _init, "
        "context_randomize) is compared with a behavioural probe that snapshots the memory of the context object "
        "(secp256k1_context_preallocated_size bytes) before and after each probed call. "
        "Not covered by anything: data races inside C when the lock is missing "
        "(only the missing lock itself is reported), preemption inside a bytecode line, MicroPython.",
        "Trusted: Lean kernel + propext/Quot.sound/Classical.choice; harness/bindprobe.py (recording lock and library proxy, "
        "write detection by snapshots, origin classification) and harness/sched.py (settrace scheduler); CPython, ctypes, "
        "libsecp256k1. The GIL and C-level races are outside the model.",
        "§5 C20"),
}

NOT_YET = "not yet built in this round (design in DESIGN.md §5); no claim is made"


def main():
    checks = []
    for pid, (cat, tech, text, note, ref) in sorted(CLAIMED.items()):
        checks.append({
            "property_id": pid,
            "quick_cmd": "./check %s --tier quick" % pid,
            "thorough_cmd": "./check %s --tier thorough" % pid,
            "evidence_file": "evidence/%s.json" % pid,
            "replay_cmd_template": "./check %s --replay {path}" % pid,
            "engine": "lean-embit-model",
            "level_claimed": {"category": cat, "text": text, "design_ref": ref},
            "level_note": note,
            "technique": tech,
        })
    na = [{"property_id": pid, "reason": NOT_YET} for pid in sorted(TITLES) if pid not in CLAIMED]
    m = {
        "version": 1,
        "setup_cmd": "cd lean && lake build 2>&1 | tail -5",
        "hooks": {
            "guard": "EMBIT_VERIF",
            "enable": "no source hooks: checks import embit from /repo/src in-process (EMBIT_VERIF=1 is exported but nothing in /repo reads it)",
            "baseline_off_cmd": "cd /repo && /venv/bin/python -m pytest -ra -q -p no:cacheprovider --timeout=900 --continue-on-collection-errors",
            "source_commits": [],
            "add_only": True,
        },
        "engines": [{
            "name": "lean-embit-model",
            "path": "lean/",
            "serves_properties": sorted(CLAIMED),
            "kind_free_text": "Lean 4 model + spec + theorems (lake project, Mathlib-free model, native line-protocol driver) tied to /repo by a Python correspondence harness (harness/)",
        }],
        "checks": checks,
        "not_applicable": na,
        "notes": "Every check: lake build (no-op when unchanged) -> #print axioms audit of the property's theorems and source scan -> "
                 "corpus -> seeded correspondence embit vs Lean model/spec -> verdict. Exit 2 = harness error (not a verdict).",
    }
    json.dump(m, open(os.path.join(VERIF, "MANIFEST.json"), "w"), indent=1)


if __name__ == "__main__":
    main()
