"""Sacrificial worker for calls into the secp256k1 binding modules.

libsecp256k1's illegal-argument callback abort()s the interpreter for some inputs, so every call into
`ctypes_secp256k1` that might do so is made in this persistent subprocess; the parent restarts it when it dies and
records the outcome class "crash". The same worker can also run `py_secp256k1` (used so that both sides of the
C08 comparison go through identical argument / result canonicalisation).

Protocol (one JSON object per line):
  request  {"m": "py"|"ct", "f": <binding function>, "a": [arg…], "inplace": false|"bytearray"|"bytes"}
           arg = {"b": hex} (bytes) | {"i": int} | {"n": null}
  answer   {"r": "ok <tokens>" | "none"}      ("none" = the call raised an ordinary exception)
Outcome strings: bytes -> lowercase hex ("-" when empty), bool -> True/False, None -> None, int -> decimal,
tuples -> their members separated by blanks. For the in-place tweak variants ("inplace": "bytearray" | "bytes") the first
argument is handed over as a fresh object of that type and the answer is its content after the call.
"""
import json
import os
import subprocess
import sys

REPO = os.environ.get("EMBIT_REPO", "/repo")


def canon(v):
    if v is None:
        return "None"
    if isinstance(v, bool):
        return "True" if v else "False"
    if isinstance(v, int):
        return str(v)
    if isinstance(v, (bytes, bytearray)):
        return bytes(v).hex() if len(v) else "-"
    if isinstance(v, (tuple, list)):
        return " ".join(canon(x) for x in v)
    return "?" + type(v).__name__


def dec(a):
    if "b" in a:
        return bytes.fromhex(a["b"])
    if "i" in a:
        return a["i"]
    return None


def call(mod, backend, f, args, inplace=False):
    """Run one binding call; returns the outcome string. Never raises for ordinary exceptions."""
    fn = getattr(mod, f, None)
    if fn is None:
        # a function the backend does not offer is a harness / coverage matter, not a rejection by the backend
        return "missing"
    try:
        if inplace:
            first = args[0]
            # inplace = "bytearray" (works under both backends) or "bytes" (a fresh object: ctypes writes into
            # the bytes object itself, the pure-python fallback cannot)
            buf = bytearray(first) if inplace != "bytes" else bytes(bytearray(first))
            fn(buf, *args[1:])
            return "ok " + canon(buf)
        return "ok " + canon(fn(*args))
    except Exception:
        return "none"


def enc(a):
    if a is None:
        return {"n": None}
    if isinstance(a, int):
        return {"i": a}
    return {"b": bytes(a).hex()}


def main():
    sys.path.insert(0, os.path.join(REPO, "src"))
    from embit.util import py_secp256k1, ctypes_secp256k1
    mods = {"py": py_secp256k1, "ct": ctypes_secp256k1}
    out = sys.stdout
    for line in sys.stdin:
        line = line.strip()
        if not line:
            continue
        q = json.loads(line)
        r = call(mods[q["m"]], q["m"], q["f"], [dec(a) for a in q["a"]], q.get("inplace", False))
        out.write(json.dumps({"r": r}) + "\n")
        out.flush()


class Worker:
    """Parent-side handle. `run(backend, fn, args, inplace)` -> outcome string or "crash"."""

    def __init__(self):
        self.p = None
        self.crashes = 0
        self.calls = 0

    def start(self):
        env = dict(os.environ)
        env["EMBIT_REPO"] = REPO
        self.p = subprocess.Popen([sys.executable, "-W", "ignore", os.path.abspath(__file__)], stdin=subprocess.PIPE,
                                  stdout=subprocess.PIPE, stderr=subprocess.DEVNULL, env=env, text=True, bufsize=1)

    def run(self, backend, f, args, inplace=False):
        if self.p is None or self.p.poll() is not None:
            self.start()
        self.calls += 1
        q = json.dumps({"m": backend, "f": f, "a": [enc(a) for a in args], "inplace": inplace})
        try:
            self.p.stdin.write(q + "\n")
            self.p.stdin.flush()
            line = self.p.stdout.readline()
        except (BrokenPipeError, OSError):
            line = ""
        if not line:
            # the worker died (abort() from libsecp's illegal-argument callback, or a segfault)
            try:
                self.p.kill()
            except Exception:
                pass
            self.p.wait()
            self.p = None
            self.crashes += 1
            return "crash"
        return json.loads(line)["r"]

    def close(self):
        if self.p is not None and self.p.poll() is None:
            try:
                self.p.stdin.close()
                self.p.wait(timeout=5)
            except Exception:
                self.p.kill()
        self.p = None


if __name__ == "__main__":
    main()
