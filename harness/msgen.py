"""Miniscript expression trees for C13 (and reusable by C12/C14): representation, printers (embit descriptor
text for the real parser, prefix tokens for the Lean driver), boundary pools, exhaustive and type-directed
random generators, mutations.

Tree nodes (tuples):
  ("key", frag, kidx, form)       frag in pk_k pk_h pk pkh; form: "sec" | "xonly" | "raw" (pk_h/pkh given as 40 hex) | "unc"
  ("time", frag, n)               older after
  ("hash", frag, bytes)           sha256 hash256 ripemd160 hash160
  ("andor", x, y, z)
  ("bin", frag, x, y)             and_v and_b and_n or_b or_c or_d or_i
  ("thresh", k, [xs])
  ("multi", frag, k, [(kidx, form), ...])   multi sortedmulti multi_a sortedmulti_a
  ("wrap", w, x)                  a s c t d v j n l u
"""
import hashlib

KEY_FRAGS = ["pk_k", "pk_h", "pk", "pkh"]
TIME_FRAGS = ["older", "after"]
HASH_FRAGS = ["sha256", "hash256", "ripemd160", "hash160"]
BIN_FRAGS = ["and_v", "and_b", "and_n", "or_b", "or_c", "or_d", "or_i"]
MULTI_FRAGS = ["multi", "sortedmulti", "multi_a", "sortedmulti_a"]
WRAPS = list("asctdvjnlu")
TIMELOCKS = [0, 1, 16, 17, 2**31 - 1, 2**31]
MORE_NUMS = [2, 127, 128, 255, 256, 32767, 32768, 65535, 500000000, 2**31 - 2, 2**32]

NKEYS = 24
_KEYS = None


def keys():
    """(sec33, xonly32, uncompressed65) for private keys 1..NKEYS, via embit.ec (key parsing is not C13's subject)."""
    global _KEYS
    if _KEYS is None:
        from embit import ec
        res = []
        for i in range(NKEYS):
            pk = ec.PrivateKey(((i + 1) * 0x0101010101010101010101 + 7).to_bytes(32, "big")).get_public_key()
            sec = pk.sec()
            pk.compressed = False
            unc = pk.sec()
            pk.compressed = True
            res.append((sec, sec[1:], unc))
        _KEYS = res
    return _KEYS


def hash160(b):
    return hashlib.new("ripemd160", hashlib.sha256(b).digest()).digest()


def key_text(kidx, form):
    sec, xo, unc = keys()[kidx]
    if form == "sec":
        return sec.hex()
    if form == "xonly":
        return xo.hex()
    if form == "unc":
        return unc.hex()
    raise ValueError(form)


def key_payload(kidx, form, tap):
    """bytes the key contributes to the script, computed here (not by embit): SEC in wsh, x-only in tapscript"""
    sec, xo, unc = keys()[kidx]
    if tap:
        return xo
    if form == "unc":
        return unc
    return sec


def raw_hash(kidx):
    """a 20-byte value used when pk_h/pkh is given a raw hash"""
    return hashlib.sha256(b"raw20-%d" % kidx).digest()[:20]


# ---------------------------------------------------------------- printers

def text(t):
    k = t[0]
    if k == "key":
        _, f, kidx, form = t
        if form == "raw":
            return "%s(%s)" % (f, raw_hash(kidx).hex())
        return "%s(%s)" % (f, key_text(kidx, form))
    if k == "time":
        return "%s(%d)" % (t[1], t[2])
    if k == "hash":
        return "%s(%s)" % (t[1], t[2].hex())
    if k == "andor":
        return "andor(%s,%s,%s)" % (text(t[1]), text(t[2]), text(t[3]))
    if k == "bin":
        return "%s(%s,%s)" % (t[1], text(t[2]), text(t[3]))
    if k == "thresh":
        return "thresh(%s)" % ",".join([str(t[1])] + [text(x) for x in t[2]])
    if k == "multi":
        return "%s(%s)" % (t[1], ",".join([str(t[2])] + [key_text(i, f) for (i, f) in t[3]]))
    if k == "wrap":
        inner = text(t[2])
        if t[2][0] == "wrap":
            return t[1] + inner
        return t[1] + ":" + inner
    raise ValueError(k)


def hx(b):
    return b.hex() if len(b) else "-"


def tokens(t, tap):
    out = []
    _tokens(t, tap, out)
    return " ".join(out)


def _tokens(t, tap, out):
    k = t[0]
    if k == "key":
        _, f, kidx, form = t
        if f in ("pk_h", "pkh"):
            p = raw_hash(kidx) if form == "raw" else hash160(key_payload(kidx, form, tap))
        else:
            p = key_payload(kidx, form, tap)
        out += [f, hx(p)]
    elif k == "time":
        out += [t[1], str(t[2])]
    elif k == "hash":
        out += [t[1], hx(t[2])]
    elif k == "andor":
        out.append("andor")
        for x in t[1:]:
            _tokens(x, tap, out)
    elif k == "bin":
        out.append(t[1])
        _tokens(t[2], tap, out)
        _tokens(t[3], tap, out)
    elif k == "thresh":
        out += ["thresh", str(t[1]), str(len(t[2]))]
        for x in t[2]:
            _tokens(x, tap, out)
    elif k == "multi":
        out += [t[1], str(t[2]), str(len(t[3]))]
        out += [hx(key_payload(i, f, tap)) for (i, f) in t[3]]
    elif k == "wrap":
        out.append(t[1] + ":")
        _tokens(t[2], tap, out)
    else:
        raise ValueError(k)


def depth(t, count_wrappers=False):
    k = t[0]
    if k in ("key", "time", "hash", "multi"):
        return 1
    if k == "wrap":
        return depth(t[2], count_wrappers) + (1 if count_wrappers else 0)
    if k == "andor":
        return 1 + max(depth(x, count_wrappers) for x in t[1:])
    if k == "bin":
        return 1 + max(depth(t[2], count_wrappers), depth(t[3], count_wrappers))
    if k == "thresh":
        return 1 + max([depth(x, count_wrappers) for x in t[2]] + [0])
    raise ValueError(k)


def size(t):
    k = t[0]
    if k in ("key", "time", "hash", "multi"):
        return 1
    if k == "wrap":
        return 1 + size(t[2])
    if k == "andor":
        return 1 + sum(size(x) for x in t[1:])
    if k == "bin":
        return 1 + size(t[2]) + size(t[3])
    if k == "thresh":
        return 1 + sum(size(x) for x in t[2])


def heads(t, acc=None):
    """multiset of fragment / wrapper names in the tree"""
    acc = acc if acc is not None else {}
    k = t[0]
    name = {"key": 1, "time": 1, "hash": 1, "bin": 1, "multi": 1}.get(k)
    nm = t[1] if name else ("andor" if k == "andor" else "thresh" if k == "thresh" else t[1] + ":")
    acc[nm] = acc.get(nm, 0) + 1
    if k == "wrap":
        heads(t[2], acc)
    elif k == "andor":
        for x in t[1:]:
            heads(x, acc)
    elif k == "bin":
        heads(t[2], acc)
        heads(t[3], acc)
    elif k == "thresh":
        for x in t[2]:
            heads(x, acc)
    return acc


# ---------------------------------------------------------------- leaves with boundary pools

def key_form(tap, alt=False):
    if tap:
        return "sec" if alt else "xonly"
    return "sec"


def multi_leaves(tap, full=True):
    """multi-family leaves: k in {0,1,n,n+1}, n across the boundaries of every fragment (both the kind that
    belongs to the context and the kind that does not)."""
    res = []
    ns = [1, 2, 3, 16, 17, 20, 21] if full else [1, 3, 17, 21]
    for f in MULTI_FRAGS:
        for n in ns:
            for k in sorted({0, 1, n, n + 1}):
                # descending key order so that sorted* has something to do
                ks = [((n - 1 - i) % NKEYS, key_form(tap, alt=(i % 5 == 4))) for i in range(n)]
                res.append(("multi", f, k, ks))
    return res


def leaves(tap, full=True):
    res = []
    for f in KEY_FRAGS:
        res.append(("key", f, 0, key_form(tap)))
        if full:
            res.append(("key", f, 1, key_form(tap, alt=True)))
        if f in ("pk_h", "pkh"):
            res.append(("key", f, 2, "raw"))
    for f in TIME_FRAGS:
        for n in TIMELOCKS:
            res.append(("time", f, n))
    for i, f in enumerate(HASH_FRAGS):
        n = 32 if f in ("sha256", "hash256") else 20
        res.append(("hash", f, hashlib.sha256(b"h%d" % i).digest()[:n]))
    res += multi_leaves(tap, full)
    return res


# ---------------------------------------------------------------- type-directed random trees

class Gen:
    def __init__(self, rng, tap):
        self.rng = rng
        self.tap = tap

    def key(self):
        r = self.rng
        return r.randrange(NKEYS), key_form(self.tap, alt=r.random() < 0.2)

    def num(self, good=True):
        r = self.rng
        if good and r.random() < 0.85:
            return r.choice([1, 16, 17, 2**31 - 1, 2, 127, 128, 255, 256, 32767, 32768, 65535, 500000000, 144, 1008,
                             r.randrange(1, 2**31)])
        return r.choice(TIMELOCKS + MORE_NUMS)

    def leaf(self, ty):
        r = self.rng
        if ty == "K":
            f = r.choice(["pk_k", "pk_h"])
            i, form = self.key()
            if f == "pk_h" and r.random() < 0.3:
                form = "raw"
            return ("key", f, i, form)
        if ty == "B":
            c = r.random()
            if c < 0.3:
                f = r.choice(["pk", "pkh"])
                i, form = self.key()
                if f == "pkh" and r.random() < 0.3:
                    form = "raw"
                return ("key", f, i, form)
            if c < 0.5:
                return ("time", r.choice(TIME_FRAGS), self.num())
            if c < 0.7:
                f = r.choice(HASH_FRAGS)
                n = 32 if f in ("sha256", "hash256") else 20
                return ("hash", f, bytes(r.getrandbits(8) for _ in range(n)))
            return self.multi()
        # no V or W leaves
        return None

    def multi(self, good=True):
        r = self.rng
        fr = (["multi_a", "sortedmulti_a"] if self.tap else ["multi", "sortedmulti"])
        if not good or r.random() < 0.05:
            fr = MULTI_FRAGS
        f = r.choice(fr)
        n = r.choice([1, 1, 2, 2, 3, 3, 4, 5, 15, 16, 17, 20]) if good else r.choice([1, 2, 16, 17, 20, 21, 22])
        k = r.choice([1, n, r.randrange(1, n + 1)]) if good or r.random() < 0.5 else r.choice([0, n + 1])
        return ("multi", f, k, [self.key() for _ in range(n)])

    def expr(self, ty, d):
        """an expression that is meant to have base type `ty` (properties are not tracked: a share of the
        results is ill-typed, which is wanted)"""
        r = self.rng
        if d <= 1:
            if ty == "V":
                return ("wrap", "v", self.leaf("B"))
            if ty == "W":
                return ("wrap", r.choice(["a", "s"]), self.leaf("B"))
            return self.leaf(ty)
        e = self.expr
        if ty == "B":
            opts = ["and_b", "or_b", "or_d", "or_i", "andor", "and_v", "and_n", "thresh", "c", "t", "d", "j", "n", "l", "u", "leaf", "leaf"]
            o = r.choice(opts)
            if o == "leaf":
                return self.leaf("B")
            if o == "and_b":
                return ("bin", o, e("B", d - 1), e("W", d - 1))
            if o == "or_b":
                return ("bin", o, e("B", d - 1), e("W", d - 1))
            if o == "or_d":
                return ("bin", o, e("B", d - 1), e("B", d - 1))
            if o == "or_i":
                return ("bin", o, e("B", d - 1), e("B", d - 1))
            if o == "andor":
                return ("andor", e("B", d - 1), e("B", d - 1), e("B", d - 1))
            if o == "and_v":
                return ("bin", o, e("V", d - 1), e("B", d - 1))
            if o == "and_n":
                return ("bin", o, e("B", d - 1), e("B", d - 1))
            if o == "thresh":
                n = r.choice([1, 2, 2, 3, 3, 4])
                k = r.choice([1, n, r.randrange(1, n + 1)]) if r.random() < 0.9 else r.choice([0, n + 1])
                return ("thresh", k, [e("B", d - 1)] + [e("W", d - 1) for _ in range(n - 1)])
            if o == "c":
                return ("wrap", "c", e("K", d - 1))
            if o in ("t", "d"):
                return ("wrap", o, e("V", d - 1))
            return ("wrap", o, e("B", d - 1))
        if ty == "V":
            o = r.choice(["v", "v", "v", "and_v", "or_c", "or_i", "andor"])
            if o == "v":
                return ("wrap", "v", e("B", d - 1))
            if o == "and_v":
                return ("bin", o, e("V", d - 1), e("V", d - 1))
            if o == "or_c":
                return ("bin", o, e("B", d - 1), e("V", d - 1))
            if o == "or_i":
                return ("bin", o, e("V", d - 1), e("V", d - 1))
            return ("andor", e("B", d - 1), e("V", d - 1), e("V", d - 1))
        if ty == "K":
            o = r.choice(["leaf", "leaf", "and_v", "or_i", "andor"])
            if o == "leaf":
                return self.leaf("K")
            if o == "and_v":
                return ("bin", o, e("V", d - 1), e("K", d - 1))
            if o == "or_i":
                return ("bin", o, e("K", d - 1), e("K", d - 1))
            return ("andor", e("B", d - 1), e("K", d - 1), e("K", d - 1))
        if ty == "W":
            o = r.choice(["a", "s"])
            return ("wrap", o, e("B", d - 1))
        raise ValueError(ty)

    def any_leaf(self):
        r = self.rng
        c = r.random()
        if c < 0.35:
            return self.leaf(r.choice(["K", "B"]))
        if c < 0.55:
            return ("time", r.choice(TIME_FRAGS), self.num(good=False))
        if c < 0.7:
            return self.multi(good=False)
        return self.leaf("B")

    def mutate(self, t):
        """one random local change somewhere in the tree (near-miss ill-typed expressions)"""
        r = self.rng
        paths = []
        _paths(t, (), paths)
        p = r.choice(paths)
        sub = _get(t, p)
        k = sub[0]
        c = r.random()
        if c < 0.25:
            new = ("wrap", r.choice(WRAPS), sub)
        elif c < 0.4 and k == "wrap":
            new = sub[2] if r.random() < 0.5 else ("wrap", r.choice(WRAPS), sub[2])
        elif c < 0.55 and k == "bin":
            new = ("bin", r.choice(BIN_FRAGS), sub[2], sub[3]) if r.random() < 0.7 else ("bin", sub[1], sub[3], sub[2])
        elif c < 0.65 and k == "thresh":
            n = len(sub[2])
            new = ("thresh", r.choice([0, 1, n, n + 1]), sub[2])
        elif c < 0.7 and k == "thresh" and len(sub[2]) > 1:
            xs = list(sub[2])
            del xs[r.randrange(len(xs))]
            new = ("thresh", sub[1], xs)
        elif c < 0.8 and k == "andor":
            xs = list(sub[1:])
            r.shuffle(xs)
            new = ("andor",) + tuple(xs)
        elif c < 0.9:
            new = self.any_leaf()
        else:
            new = self.expr(r.choice("BVKW"), 2)
        return _set(t, p, new)


def boundary_variants(t, tap):
    """every single-argument change of `t` to a boundary value: k of thresh/multi to 0, 1, n, n+1; a timelock to each
    pool value; a multi grown/shrunk to 20/21 (wsh) keys; a thresh with one sub-expression dropped"""
    paths = []
    _paths(t, (), paths)
    res = []
    for p in paths:
        sub = _get(t, p)
        k = sub[0]
        if k == "thresh":
            n = len(sub[2])
            for kk in sorted({0, 1, n, n + 1}):
                if kk != sub[1]:
                    res.append(_set(t, p, ("thresh", kk, sub[2])))
        elif k == "multi":
            n = len(sub[3])
            for kk in sorted({0, 1, n, n + 1}):
                if kk != sub[2]:
                    res.append(_set(t, p, ("multi", sub[1], kk, sub[3])))
            form = sub[3][0][1] if sub[3] else key_form(tap)
            for nn in (16, 17, 20, 21):
                if nn != n:
                    ks = [((7 * i + n) % NKEYS, form) for i in range(nn)]
                    res.append(_set(t, p, ("multi", sub[1], min(sub[2], nn), ks)))
            other = {"multi": "multi_a", "sortedmulti": "sortedmulti_a", "multi_a": "multi", "sortedmulti_a": "sortedmulti"}
            res.append(_set(t, p, ("multi", other[sub[1]], sub[2], sub[3])))
        elif k == "time":
            for nn in TIMELOCKS:
                if nn != sub[2]:
                    res.append(_set(t, p, ("time", sub[1], nn)))
    return res


def _paths(t, p, acc):
    acc.append(p)
    k = t[0]
    if k == "wrap":
        _paths(t[2], p + (2,), acc)
    elif k == "andor":
        for i in (1, 2, 3):
            _paths(t[i], p + (i,), acc)
    elif k == "bin":
        _paths(t[2], p + (2,), acc)
        _paths(t[3], p + (3,), acc)
    elif k == "thresh":
        for i, x in enumerate(t[2]):
            _paths(x, p + (2, i), acc)


def _get(t, p):
    for i in p:
        t = t[i]
    return t


def _set(t, p, new):
    if not p:
        return new
    i = p[0]
    if isinstance(t, list):
        l = list(t)
        l[i] = _set(t[i], p[1:], new)
        return l
    l = list(t)
    l[i] = _set(t[i], p[1:], new)
    return tuple(l)
