"""Prints the per-module theorem counts of lean/theorems.lock.json as a markdown table (pasted into DESIGN.md §0.2)."""
import json, os, collections
L = json.load(open(os.path.join(os.path.dirname(os.path.dirname(os.path.abspath(__file__))), "lean", "theorems.lock.json")))
by = collections.OrderedDict()
for m in sorted(L):
    name = m.split(".")[-1]
    by.setdefault(name[:3], []).append((name, len(L[m])))
print("| property | Props modules (theorems pinned in the lock) | total |\n|---|---|---|")
tot = 0
for p, ms in by.items():
    t = sum(n for _, n in ms); tot += t
    print("| %s | %s | %d |" % (p, ", ".join("%s %d" % x for x in ms), t))
print("| all | %d modules | %d |" % (len(L), tot))
