"""Translator for the aliasing / mutation / memoisation facts of property C19 (and the out-buffer facts C20 reads).

For every function of every loaded embit module (module functions, methods, classmethods, staticmethods,
properties, functions wrapped by a decorator defined in the module) the LOADED objects give the parameter
defaults (`__defaults__` / `__kwdefaults__`: which defaults are list / dict / set / bytearray INSTANCES) and the
classes to probe; `ast` gives what the loaded module cannot tell: whether a default is written as a literal or
refers to a module constant, what the body does with each parameter (stores it, copies it, mutates it, returns
it, forwards it), `if self._m is None: self._m = f(args)` memos, attribute writes into argument objects and how
the byte buffers handed to native code are built. Every hazard found is confirmed or refuted by a run-time probe
where one exists (identity probes `A().x is A().x`, before/after comparison of arguments, repeated queries with
different arguments, identity of out-buffers across calls).

Output: lean/EmbitModel/Generated/AliasFacts.lean — `sites : List Site` (name, kind, probe result, evidence) and
`outBuffers` (for C20). A hazard that is neither classifiable nor probed is emitted as `.unclassified` (never
skipped), which `Props/C19Facts.facts_safe_partial` cannot discharge.

Second part (harness/sharedstate.py, run in a brand-new interpreter by `shared_sites()`): hidden state that is NOT a
parameter - module-level and class-level mutable objects, their flows into instance attributes / return values, functions
that write them or rebind names under `global`, memo fields in other shapes, cache decorators, module-level memo
dictionaries, aliases of the native library -> `sharedSites : List HeapShared.SharedSite`, `sharedScan` (obligations in
Props/C19Y.lean). Native calls made through an alias (`lib = _secp; lib.f(buf)`, `fn = _secp.f`, `getattr(_secp, 'f')`)
are followed by `binding_buffers` like literal `_secp.f(...)` calls."""
import ast
import importlib
import inspect
import os
import pkgutil
import sys
import types

MUTABLE = (list, dict, set, bytearray)

# modules of the package that are not part of the API surface on CPython (MicroPython word lists, the bundled
# pure-python fallbacks are scanned too; only data-only modules are skipped)
SKIP_MODULES = ("embit.wordlists.",)

MUTATOR_METHODS = {"append", "extend", "insert", "pop", "remove", "clear", "update", "setdefault", "popitem",
                   "sort", "reverse", "add", "discard", "difference_update", "intersection_update",
                   "symmetric_difference_update", "move_to_end", "__setitem__", "__delitem__", "__iadd__"}
COPY_CALLS = {"list", "dict", "set", "bytearray", "tuple", "OrderedDict", "copy", "deepcopy", "_copy", "sorted",
              "frozenset"}
COPY_METHODS = {"copy"}
# builtins / helpers that only read their argument
READ_CALLS = {"len", "isinstance", "enumerate", "zip", "range", "sum", "any", "all", "min", "max", "str", "repr",
              "hash", "int", "bool", "hexlify", "unhexlify", "print", "type", "hasattr", "getattr", "iter", "next",
              "reversed", "map", "filter", "id", "bytes", "format", "abs", "divmod", "ord", "chr", "callable", "issubclass"}
IMMUTABLE_ANNOTATIONS = {"int", "str", "bytes", "bool", "float"}


class Site:
    def __init__(self, name, kind, probe="notProbed", evidence="", witness=None, c20=None):
        self.name = name
        self.kind = kind          # Lean term of type SiteKind
        self.probe = probe        # confirmedSafe | confirmedUnsafe | notProbed
        self.evidence = evidence
        self.witness = witness    # concrete history (text) reproducing the hazard on the loaded code, if unsafe

    def row(self):
        return '  { name := "%s", kind := %s, probe := .%s,\n    evidence := "%s" }' % (
            self.name, self.kind, self.probe, self.evidence.replace("\\", "\\\\").replace('"', "'"))


# ------------------------------------------------------------------------------------------------ enumeration

def embit_modules():
    import embit
    names = ["embit"]
    for m in pkgutil.walk_packages(embit.__path__, "embit."):
        names.append(m.name)
    mods = []
    skipped = []
    for n in sorted(names):
        if any(n.startswith(s) or n + "." == s for s in SKIP_MODULES):
            continue
        try:
            mods.append(importlib.import_module(n))
        except Exception as e:  # MicroPython-only modules
            skipped.append((n, "%s: %s" % (type(e).__name__, e)))
    return mods, skipped


def unwrap(fn, modname):
    """functions hidden behind a decorator defined in the same module (ctypes `@locked`)"""
    out = [fn]
    seen = {id(fn)}
    stack = [fn]
    while stack:
        f = stack.pop()
        for cell in (getattr(f, "__closure__", None) or ()):
            try:
                v = cell.cell_contents
            except ValueError:
                continue
            if isinstance(v, types.FunctionType) and v.__module__ == modname and id(v) not in seen:
                seen.add(id(v))
                out.append(v)
                stack.append(v)
        w = getattr(f, "__wrapped__", None)
        if isinstance(w, types.FunctionType) and id(w) not in seen:
            seen.add(id(w))
            out.append(w)
            stack.append(w)
    return out


def functions_of(mod):
    """[(qualname, function, owner class or None)] for everything defined in `mod`"""
    res = []
    name = mod.__name__

    def add(qual, f, cls):
        if isinstance(f, (classmethod, staticmethod)):
            f = f.__func__
        if isinstance(f, property):
            for g in (f.fget, f.fset, f.fdel):
                if g is not None:
                    add(qual, g, cls)
            return
        if not isinstance(f, types.FunctionType) or f.__module__ != name:
            return
        for g in unwrap(f, name):
            res.append((g.__qualname__, g, cls))

    for k, v in list(vars(mod).items()):
        if isinstance(v, type) and v.__module__ == name:
            for a, b in list(vars(v).items()):
                add("%s.%s" % (v.__qualname__, a), b, v)
        else:
            add(k, v, None)
    # one entry per code object
    seen = set()
    uniq = []
    for q, f, c in res:
        if id(f.__code__) in seen:
            continue
        seen.add(id(f.__code__))
        uniq.append((q, f, c))
    return uniq


def ast_functions(mod):
    """{(lineno of def): (qualname, FunctionDef, enclosing ClassDef or None)} for every def in the module source"""
    path = inspect.getsourcefile(mod) or getattr(mod, "__file__", None)
    if path is None or not os.path.exists(path):
        raise OSError("no source file")
    src = open(path, encoding="utf-8").read()
    tree = ast.parse(src)
    out = {}
    for lam in ast.walk(tree):
        if isinstance(lam, ast.Lambda):
            # a lambda is analysed as `def <lambda>(args): return body`
            fd = ast.FunctionDef(name="<lambda>", args=lam.args, body=[ast.Return(value=lam.body)], decorator_list=[],
                                 returns=None, type_comment=None, lineno=lam.lineno, col_offset=lam.col_offset)
            ast.fix_missing_locations(fd)
            out.setdefault(("lambda", lam.lineno), ("<lambda>", fd, None))

    def walk(node, prefix, cls):
        for ch in ast.iter_child_nodes(node):
            if isinstance(ch, (ast.FunctionDef, ast.AsyncFunctionDef)):
                q = prefix + ch.name
                out[ch.lineno] = (q, ch, cls)
                walk(ch, q + ".<locals>.", cls)
            elif isinstance(ch, ast.ClassDef):
                walk(ch, prefix + ch.name + ".", ch)
            else:
                walk(ch, prefix, cls)
    walk(tree, "", None)
    return tree, out


def def_line(f):
    """line of the `def` keyword (co_firstlineno points at the first decorator)"""
    return f.__code__.co_firstlineno


# ------------------------------------------------------------------------------------------------ AST helpers

def params_of(fd):
    a = fd.args
    names = [x.arg for x in a.posonlyargs + a.args]
    kwonly = [x.arg for x in a.kwonlyargs]
    ann = {x.arg: x.annotation for x in a.posonlyargs + a.args + a.kwonlyargs}
    defaults = {}
    pos = a.posonlyargs + a.args
    for p, d in zip(pos[len(pos) - len(a.defaults):], a.defaults):
        defaults[p.arg] = d
    for p, d in zip(a.kwonlyargs, a.kw_defaults):
        if d is not None:
            defaults[p.arg] = d
    return names, kwonly, (a.vararg.arg if a.vararg else None), (a.kwarg.arg if a.kwarg else None), defaults, ann


def base_name(node):
    """the Name at the root of an attribute / subscript chain, and the chain depth"""
    depth = 0
    while isinstance(node, (ast.Attribute, ast.Subscript)):
        node = node.value
        depth += 1
    if isinstance(node, ast.Name):
        return node.id, depth
    return None, depth


def is_display(node):
    if isinstance(node, (ast.List, ast.Dict, ast.Set, ast.ListComp, ast.DictComp, ast.SetComp)):
        return True
    if isinstance(node, ast.Call) and isinstance(node.func, ast.Name) and node.func.id in (
            "list", "dict", "set", "bytearray", "OrderedDict") :
        return True
    return False


def call_name(node):
    f = node.func
    if isinstance(f, ast.Name):
        return f.id
    if isinstance(f, ast.Attribute):
        return f.attr
    return None


def names_in(node):
    return {n.id for n in ast.walk(node) if isinstance(n, ast.Name)}


def is_copy_of(node, p):
    """expression that is a (shallow) copy of the parameter p"""
    if isinstance(node, ast.Subscript) and isinstance(node.value, ast.Name) and node.value.id == p \
            and isinstance(node.slice, ast.Slice) and node.slice.lower is None and node.slice.upper is None:
        return True
    if isinstance(node, ast.Call):
        if isinstance(node.func, ast.Name) and node.func.id in COPY_CALLS and len(node.args) >= 1 \
                and isinstance(node.args[0], ast.Name) and node.args[0].id == p:
            return True
        if isinstance(node.func, ast.Attribute) and node.func.attr in COPY_METHODS \
                and isinstance(node.func.value, ast.Name) and node.func.value.id == p:
            return True
    if isinstance(node, ast.BinOp) and isinstance(node.op, ast.Add):
        # p + x builds a new object
        return (isinstance(node.left, ast.Name) and node.left.id == p) or \
               (isinstance(node.right, ast.Name) and node.right.id == p)
    if isinstance(node, (ast.ListComp, ast.DictComp, ast.SetComp, ast.GeneratorExp)):
        return True
    return False


class Usage:
    """what a function body does with one parameter (flow-insensitive)"""

    def __init__(self):
        self.stored = []      # attribute / subscript targets the bare parameter is assigned to
        self.copied = False
        self.mutated = []     # descriptions of in-place modifications
        self.attr_written = []  # param.attr = ...
        self.returned = False
        self.forwarded = []   # callee names the bare parameter is passed to
        self.none_guard = None  # 'fresh' when `if p is None: p = <display>`
        self.rebound = False
        self.iterated = False
        self.aliases = set()  # local names bound to the bare parameter (x = p / x = p or ...)


def analyse_param(fd, p):
    u = Usage()
    for node in ast.walk(fd):
        if isinstance(node, (ast.Assign, ast.AnnAssign)):
            targets = node.targets if isinstance(node, ast.Assign) else [node.target]
            val = node.value
            if val is None:
                continue
            bare = isinstance(val, ast.Name) and val.id == p
            # `x = p or default`, `x = p if c else d`
            if isinstance(val, ast.BoolOp):
                bare = bare or any(isinstance(v, ast.Name) and v.id == p for v in val.values)
            if isinstance(val, ast.IfExp):
                bare = bare or any(isinstance(v, ast.Name) and v.id == p for v in (val.body, val.orelse))
            for t in targets:
                if isinstance(t, ast.Name) and t.id == p:
                    u.rebound = True
                if bare:
                    if isinstance(t, (ast.Attribute, ast.Subscript)):
                        u.stored.append(ast.unparse(t))
                    elif isinstance(t, ast.Name) and t.id != p:
                        u.aliases.add(t.id)
                elif is_copy_of(val, p) and isinstance(t, (ast.Attribute, ast.Subscript, ast.Name)):
                    u.copied = True
                # containers holding the bare parameter:  self.x = [p, ...] / (p, q)
                elif isinstance(val, (ast.List, ast.Tuple, ast.Dict, ast.Set)) and isinstance(t, (ast.Attribute, ast.Subscript)):
                    elts = val.elts if not isinstance(val, ast.Dict) else list(val.values)
                    if any(isinstance(e, ast.Name) and e.id == p for e in elts):
                        u.stored.append(ast.unparse(t) + " (inside a container)")
                # p[...] = v   /   p.attr = v   /  p.attr[...] = v
                bn, depth = base_name(t)
                if bn == p and depth >= 1:
                    if isinstance(t, ast.Attribute) and depth == 1:
                        u.attr_written.append(ast.unparse(t))
                    else:
                        u.mutated.append(ast.unparse(t) + " = ...")
        elif isinstance(node, ast.AugAssign):
            bn, depth = base_name(node.target)
            if bn == p:
                u.mutated.append(ast.unparse(node.target) + " %s= ..." % type(node.op).__name__)
        elif isinstance(node, ast.Delete):
            for t in node.targets:
                bn, depth = base_name(t)
                if bn == p and depth >= 1:
                    u.mutated.append("del " + ast.unparse(t))
        elif isinstance(node, ast.Call):
            f = node.func
            if isinstance(f, ast.Attribute) and f.attr in MUTATOR_METHODS:
                bn, depth = base_name(f.value)
                if bn == p:
                    u.mutated.append(ast.unparse(f) + "(...)")
            cn = call_name(node)
            args = list(node.args) + [k.value for k in node.keywords]
            for a in args:
                if isinstance(a, ast.Starred):
                    a = a.value
                if isinstance(a, ast.Name) and a.id == p:
                    if cn in COPY_CALLS:
                        pass
                    elif cn in READ_CALLS:
                        pass
                    else:
                        u.forwarded.append(ast.unparse(node.func))
        elif isinstance(node, ast.Return):
            if node.value is not None and isinstance(node.value, ast.Name) and node.value.id == p:
                u.returned = True
        elif isinstance(node, (ast.For, ast.comprehension)):
            it = node.iter
            if isinstance(it, ast.Name) and it.id == p:
                u.iterated = True
        elif isinstance(node, ast.If):
            t = node.test
            if isinstance(t, ast.Compare) and isinstance(t.left, ast.Name) and t.left.id == p and len(t.ops) == 1 \
                    and isinstance(t.ops[0], ast.Is) and isinstance(t.comparators[0], ast.Constant) \
                    and t.comparators[0].value is None:
                for st in node.body:
                    if isinstance(st, ast.Assign) and any(isinstance(x, ast.Name) and x.id == p for x in st.targets):
                        if is_display(st.value):
                            u.none_guard = ast.unparse(st.value)
    return u


def origins(fd, params, in_init):
    """flow-insensitive origin of local names: 'param:<p>', 'self', 'fresh', 'unknown' (a set per name)"""
    org = {}

    def add(n, o):
        org.setdefault(n, set()).add(o)

    def expr_origin(e):
        if isinstance(e, ast.Name):
            if e.id == "self" or e.id == "cls":
                return {"self"}
            if e.id in params:
                return {"param:" + e.id}
            return set(org.get(e.id, {"unknown"}))
        if isinstance(e, (ast.Attribute, ast.Subscript)):
            bn, _ = base_name(e)
            if bn is None:
                # e.g. f(x).attr
                return expr_origin_call_root(e)
            if bn == "self":
                return {"self"}
            if bn in params:
                return {"param:" + bn}
            return set(org.get(bn, {"unknown"}))
        if isinstance(e, ast.Call) or is_display(e) or isinstance(e, (ast.Constant, ast.JoinedStr, ast.BinOp, ast.Tuple,
                                                                      ast.Compare, ast.UnaryOp, ast.Lambda)):
            return {"fresh"}
        if isinstance(e, ast.BoolOp):
            s = set()
            for v in e.values:
                s |= expr_origin(v)
            return s
        if isinstance(e, ast.IfExp):
            return expr_origin(e.body) | expr_origin(e.orelse)
        return {"unknown"}

    def expr_origin_call_root(e):
        while isinstance(e, (ast.Attribute, ast.Subscript)):
            e = e.value
        return {"fresh"} if isinstance(e, ast.Call) else {"unknown"}

    # two passes so that names defined later (loops) settle
    for _ in range(3):
        for node in ast.walk(fd):
            if isinstance(node, ast.Assign):
                for t in node.targets:
                    if isinstance(t, ast.Name):
                        for o in expr_origin(node.value):
                            add(t.id, o)
                    elif isinstance(t, ast.Tuple):
                        for el in t.elts:
                            if isinstance(el, ast.Name):
                                for o in expr_origin(node.value):
                                    add(el.id, o)
            elif isinstance(node, (ast.For, ast.comprehension)):
                tgt = node.target
                its = expr_origin(node.iter)
                # iterating over a call result: items()/enumerate(x) — look through to the argument
                it = node.iter
                if isinstance(it, ast.Call):
                    inner = set()
                    f = it.func
                    if isinstance(f, ast.Attribute) and f.attr in ("items", "values", "keys"):
                        inner |= expr_origin(f.value)
                    for a in it.args:
                        if call_name(it) in ("enumerate", "zip", "reversed", "sorted", "list", "iter"):
                            inner |= expr_origin(a)
                    its = inner or its
                for el in ([tgt] if isinstance(tgt, ast.Name) else
                           [x for x in ast.walk(tgt) if isinstance(x, ast.Name)]):
                    for o in its:
                        add(el.id, o)
            elif isinstance(node, ast.With):
                for it in node.items:
                    if isinstance(it.optional_vars, ast.Name):
                        add(it.optional_vars.id, "fresh")
    return org, expr_origin


def find_writes(fd, params, in_init):
    """attribute / item writes and mutator calls whose target object is not the receiver itself:
    -> [(description, origin set, base name)]"""
    org, expr_origin = origins(fd, params, in_init)
    res = []

    def consider(target, what):
        bn, depth = base_name(target)
        if bn is None or depth == 0:
            return
        if bn in ("self", "cls"):
            return
        o = set(org.get(bn, set()))
        if bn in params:
            o.add("param:" + bn)
        if not o:
            o = {"unknown"}
        res.append((what, o, bn))

    for node in ast.walk(fd):
        if isinstance(node, ast.Assign):
            for t in node.targets:
                if isinstance(t, (ast.Attribute, ast.Subscript)):
                    consider(t, ast.unparse(t) + " = ...")
        elif isinstance(node, ast.AugAssign):
            t = node.target
            if isinstance(t, (ast.Attribute, ast.Subscript)):
                consider(t, ast.unparse(t) + " op= ...")
            elif isinstance(t, ast.Name) and t.id in params:
                res.append((t.id + " op= ...", {"param:" + t.id}, t.id))
        elif isinstance(node, ast.Delete):
            for t in node.targets:
                if isinstance(t, (ast.Attribute, ast.Subscript)):
                    consider(t, "del " + ast.unparse(t))
        elif isinstance(node, ast.Call) and isinstance(node.func, ast.Attribute) and node.func.attr in MUTATOR_METHODS:
            if node.func.attr == "add" and len(node.args) != 1:
                continue   # set.add takes exactly one argument; add(P, Q) is arithmetic
            v = node.func.value
            bn, depth = base_name(v)
            if bn is not None and bn not in ("self", "cls"):
                o = set(org.get(bn, set()))
                if bn in params:
                    o.add("param:" + bn)
                if not o:
                    o = {"unknown"}
                res.append((ast.unparse(node.func) + "(...)", o, bn))
    # calls of the documented in-place variants with an object that comes from a parameter
    for node in ast.walk(fd):
        if isinstance(node, ast.Call) and call_name(node) in INPLACE_FUNCS and node.args:
            a = node.args[0]
            bn, depth = base_name(a)
            if bn is None or bn in ("self", "cls"):
                continue
            o = set(org.get(bn, set()))
            if bn in params:
                o.add("param:" + bn)
            if any(x.startswith("param:") for x in o):
                res.append(("%s(%s, ...) [in-place variant]" % (call_name(node), ast.unparse(a)), o, bn))
    return res, org


INPLACE_FUNCS = {"ec_privkey_tweak_add", "ec_pubkey_tweak_add", "ec_privkey_tweak_mul", "ec_pubkey_tweak_mul"}


# ------------------------------------------------------------------------------------------------ probes

def deep_copy_bytes(x):
    if isinstance(x, (bytes, bytearray)):
        return bytes(bytearray(x))
    if isinstance(x, (list, tuple)):
        return [deep_copy_bytes(y) for y in x]
    return x


class Probes:
    """run-time probes on the loaded code; each returns (result, text) with result in
    confirmedSafe | confirmedUnsafe | notProbed and text a one-line concrete history"""

    def __init__(self):
        self.fixture_errors = {}

    # ----- constructors: two objects built with default arguments must not share a mutable container
    def ctor_fixture(self, cls):
        """callable building an instance with every mutable-default parameter left at its default"""
        from embit.transaction import Transaction, TransactionInput, TransactionOutput
        from embit.script import Script
        name = cls.__name__
        try:
            sig = inspect.signature(cls)
            required = [p for p in sig.parameters.values()
                        if p.default is inspect.Parameter.empty and p.kind in (p.POSITIONAL_ONLY, p.POSITIONAL_OR_KEYWORD, p.KEYWORD_ONLY)]
        except (TypeError, ValueError):
            required = None
        if required == []:
            return lambda: cls()
        fx = CTOR_FIXTURES.get(name)
        if fx:
            return lambda: fx(cls)
        return None

    def ctor_identity(self, cls, param):
        mk = self.ctor_fixture(cls)
        if mk is None:
            return "notProbed", "no fixture to build %s with default arguments" % cls.__name__
        try:
            a, b = mk(), mk()
        except Exception as e:
            return "notProbed", "building %s() raised %s: %s" % (cls.__name__, type(e).__name__, e)
        shared = []
        for k, v in vars(a).items():
            if isinstance(v, MUTABLE) and k in vars(b) and vars(b)[k] is v:
                shared.append(k)
            # one level down: lists of lists (AllowedDerivation.indexes)
            if isinstance(v, (list, tuple)) and k in vars(b) and isinstance(vars(b)[k], (list, tuple)):
                for x, y in zip(v, vars(b)[k]):
                    if isinstance(x, MUTABLE) and x is y and k not in shared:
                        shared.append(k + "[i]")
        # the default object itself must not be reachable from the instance
        init = cls.__init__
        dflt = None
        try:
            sig = inspect.signature(init)
            if param in sig.parameters:
                dflt = sig.parameters[param].default
        except (TypeError, ValueError):
            pass
        reach = []
        if isinstance(dflt, MUTABLE):
            for k, v in vars(a).items():
                if v is dflt:
                    reach.append(k)
                elif isinstance(v, (list, tuple)) and isinstance(dflt, (list, tuple)):
                    if any(isinstance(x, MUTABLE) and any(x is y for y in dflt) for x in v):
                        reach.append(k + "[i]")
        if shared or reach:
            ks = sorted(set(shared) | set(reach))
            return "confirmedUnsafe", "a = %s(); b = %s(); a.%s is b.%s" % (cls.__name__, cls.__name__, ks[0], ks[0])
        return "confirmedSafe", "a = %s(); b = %s(); no mutable attribute of a is an attribute of b or the default object" % (
            cls.__name__, cls.__name__)

    # ----- default objects still equal their literal
    def default_unchanged(self, value, expr):
        try:
            lit = ast.literal_eval(expr)
        except Exception:
            return "notProbed", "default is not a literal"
        if lit == value and type(lit) is type(value):
            return "confirmedSafe", "default object still equals its literal %s" % ast.unparse(expr)
        return "confirmedUnsafe", "default object is %r but the source says %s" % (value, ast.unparse(expr))


def _fx_tx():
    from embit.transaction import Transaction, TransactionInput, TransactionOutput
    from embit.script import Script
    return Transaction(2, [TransactionInput(b"\x11" * 32, 0), TransactionInput(b"\x22" * 32, 1)],
                       [TransactionOutput(1000, Script(b"\x51")), TransactionOutput(2000, Script(b"\x52"))], 0)


def _fx_psbtview(cls=None):
    from io import BytesIO
    from embit.psbt import PSBT
    from embit.psbtview import PSBTView
    cls = cls or PSBTView
    return cls.view(BytesIO(PSBT(_fx_tx()).serialize()))


def _fx_ltx():
    from embit.liquid.transaction import LTransaction, LTransactionInput, LTransactionOutput
    from embit.script import Script
    return LTransaction(2, [LTransactionInput(b"\x11" * 32, 0), LTransactionInput(b"\x22" * 32, 1)],
                        [LTransactionOutput(b"\x01" * 32, 1000, Script(b"\x51"))], 0)


def _fx_pubkey():
    from embit import ec
    return ec.PrivateKey(b"\x01" * 32).get_public_key()


def _fx_hd():
    from embit import bip32
    return bip32.HDKey.from_seed(b"\x05" * 64)


CTOR_FIXTURES = {
    # classes whose constructor has required arguments: how to build one with the mutable-default parameters defaulted
    "PSBT": lambda cls: cls(_fx_tx() if cls.__name__ == "PSBT" else _fx_ltx()),
    "PSET": lambda cls: cls(_fx_ltx()),
}

# receivers for memo probes: class name -> (builder, {method: [args1, args2]})
def _memo_fixtures():
    from embit.script import Script
    spk = [Script(b"\x51\x20" + b"\x01" * 32)] * 2
    spk2 = [Script(b"\x51\x20" + b"\x02" * 32)] * 2
    return {
        "Transaction": (_fx_tx, {"hash_amounts": [([1000, 2000],), ([3000, 4000],)],
                                 "hash_script_pubkeys": [(spk,), (spk2,)]}),
        "PSBTView": (_fx_psbtview, {"hash_amounts": [([1000, 2000],), ([3000, 4000],)],
                                    "hash_script_pubkeys": [(spk,), (spk2,)]}),
    }


def probe_memo(clsname, method):
    """second call with other arguments on the same receiver must equal the call on a fresh receiver"""
    fx = _memo_fixtures().get(clsname)
    if fx is None or method not in fx[1]:
        return "notProbed", "no fixture for %s.%s" % (clsname, method)
    mk, calls = fx
    a1, a2 = calls[method]
    try:
        r = mk()
        getattr(r, method)(*a1)
        second = getattr(r, method)(*a2)
        fresh = getattr(mk(), method)(*a2)
    except Exception as e:
        return "notProbed", "%s.%s raised %s: %s" % (clsname, method, type(e).__name__, e)
    txt = "x = %s; x.%s(A1); x.%s(A2) vs fresh.%s(A2) with A1 = %r, A2 = %r" % (
        clsname, method, method, method, _short(a1), _short(a2))
    if second != fresh:
        return "confirmedUnsafe", txt + " differ (the second answer is the first call's)"
    return "confirmedSafe", txt + " agree"


def _short(a):
    s = repr(a)
    return s if len(s) < 70 else s[:67] + "..."


def probe_sighash_taproot(clsname):
    from embit.script import Script
    mk = {"Transaction": _fx_tx, "PSBTView": _fx_psbtview}.get(clsname)
    if mk is None:
        return "notProbed", "no fixture"
    spk = [Script(b"\x51\x20" + b"\x01" * 32)] * 2
    try:
        r = mk()
        r.sighash_taproot(0, spk, [1000, 2000])
        second = r.sighash_taproot(0, spk, [3000, 4000])
        fresh = mk().sighash_taproot(0, spk, [3000, 4000])
    except Exception as e:
        return "notProbed", "raised %s: %s" % (type(e).__name__, e)
    txt = "t = %s; t.sighash_taproot(0, spks, [1000, 2000]); t.sighash_taproot(0, spks, [3000, 4000]) vs the same call on a fresh object" % clsname
    if second != fresh:
        return "confirmedUnsafe", txt + ": differ"
    # the caller's own lists edited in place and handed in again: a memo key that is the argument object itself
    # (not its contents) compares equal to itself
    try:
        r = mk()
        vals = [1000, 2000]
        spks = [Script(b"\x51\x20" + b"\x01" * 32), Script(b"\x51\x20" + b"\x02" * 32)]
        r.sighash_taproot(0, spks, vals)
        vals[1] = 45000
        spks[1] = Script(b"\x51\x20" + b"\x03" * 32)
        second = r.sighash_taproot(0, spks, vals)
        spks[0].data = b"\x51\x20" + b"\x04" * 32
        third = r.sighash_taproot(0, spks, vals)
        fresh2 = mk().sighash_taproot(0, [Script(b"\x51\x20" + b"\x01" * 32), Script(b"\x51\x20" + b"\x03" * 32)], [1000, 45000])
        fresh3 = mk().sighash_taproot(0, [Script(b"\x51\x20" + b"\x04" * 32), Script(b"\x51\x20" + b"\x03" * 32)], [1000, 45000])
    except Exception as e:
        return "notProbed", "raised %s: %s" % (type(e).__name__, e)
    if second != fresh2 or third != fresh3:
        return "confirmedUnsafe", ("t = %s; t.sighash_taproot(0, spks, vals); vals[1] = 45000; spks[1] = other; "
                                   "t.sighash_taproot(0, spks, vals) (same list objects) vs a fresh object: differ" % clsname)
    return "confirmedSafe", txt + ": agree (also with the argument lists edited in place)"


def probe_arg_unchanged(fn, args, label):
    """call fn(*args); every argument must be unchanged"""
    before = [snapshot(a) for a in args]
    try:
        fn(*args)
    except Exception as e:
        return "notProbed", "%s raised %s: %s" % (label, type(e).__name__, e)
    after = [snapshot(a) for a in args]
    for i, (x, y) in enumerate(zip(before, after)):
        if x != y:
            return "confirmedUnsafe", "%s: argument %d was %s and is %s after the call" % (label, i, _short(x), _short(y))
    return "confirmedSafe", "%s: arguments unchanged" % label


def snapshot(x):
    """a value-level picture of an argument that does not share memory with it"""
    if isinstance(x, (bytes, bytearray)):
        return ("b", bytes(bytearray(x)).hex())
    if isinstance(x, (list, tuple)):
        return ("l", [snapshot(y) for y in x])
    if isinstance(x, dict):
        return ("d", [(snapshot(k), snapshot(v)) for k, v in x.items()])
    if isinstance(x, (set, frozenset)):
        return ("s", sorted(repr(snapshot(y)) for y in x))
    if isinstance(x, (int, str, bool, type(None))):
        return ("v", x)
    d = getattr(x, "__dict__", None)
    if d is not None:
        return ("o", type(x).__name__, [(k, snapshot(v)) for k, v in sorted(d.items()) if not k.startswith("__")])
    return ("r", repr(x))


def _arg_fixtures():
    from embit.util import secp256k1
    fresh = lambda b: bytes(bytearray(b))
    sec = lambda: fresh(b"\x01" * 32)
    twk = lambda: fresh(b"\x02" * 32)
    pub = lambda: fresh(secp256k1.ec_pubkey_create(b"\x03" * 32))

    def surj():
        gen_in = secp256k1.generator_generate_blinded(b"\x07" * 32, b"\x08" * 32)
        gen_out = secp256k1.generator_generate_blinded(b"\x07" * 32, b"\x09" * 32)
        proof, idx = secp256k1.surjectionproof_initialize([b"\x07" * 32], b"\x07" * 32, b"\x0a" * 32)
        return (proof, idx, [gen_in], gen_out, fresh(b"\x08" * 32), fresh(b"\x09" * 32))
    return {
        "bip39.mnemonic_from_bytes": lambda: (bytearray(b"\x01" * 16),),
        "liquid.descriptor.musig_combine_pubs": lambda: ([pub(), fresh(secp256k1.ec_pubkey_create(b"\x04" * 32))],),
        "liquid.descriptor.musig_combine_privs": lambda: ([sec(), twk()],),
        "util.ctypes_secp256k1.context_randomize": lambda: (sec(),),
        "util.ctypes_secp256k1.ec_privkey_tweak_add": lambda: (sec(), twk()),
        "util.ctypes_secp256k1.ec_pubkey_tweak_add": lambda: (pub(), twk()),
        "util.ctypes_secp256k1.ec_privkey_tweak_mul": lambda: (sec(), twk()),
        "util.ctypes_secp256k1.ec_pubkey_tweak_mul": lambda: (pub(), twk()),
        "util.ctypes_secp256k1.surjectionproof_generate": surj,
        "util.py_secp256k1.ec_privkey_tweak_add": lambda: (bytearray(b"\x01" * 32), twk()),
        "util.py_secp256k1.ec_pubkey_tweak_add": lambda: (bytearray(pub()), twk()),
    }


def probe_function_args(fname, f):
    """before/after comparison of the arguments of a module-level function"""
    fx = _arg_fixtures().get(fname)
    cands = []
    if fx is not None:
        try:
            cands = [fx()]
        except Exception as e:
            return "notProbed", "fixture for %s raised %s: %s" % (fname, type(e).__name__, e)
    elif f is not None:
        try:
            sig = inspect.signature(f)
            req = [p for p in sig.parameters.values() if p.default is inspect.Parameter.empty
                   and p.kind in (p.POSITIONAL_ONLY, p.POSITIONAL_OR_KEYWORD)]
        except (TypeError, ValueError):
            req = None
        if req is not None and len(req) == 1:
            cands = [(bytearray(b"\x01" * 16),), (bytearray(b"\x01" * 32),), ([1, 2, 3],), ({1: 2},)]
    last = ("notProbed", "no fixture to call %s" % fname)
    for args in cands:
        r = probe_arg_unchanged(f, list(args), "%s(%s)" % (fname, ", ".join(type(a).__name__ for a in args)))
        if r[0] != "notProbed":
            return r
        last = r
    return last


def receiver_fixture(owner):
    """an instance of `owner` to call a method on (None when the class has no fixture)"""
    import c19ops
    name = owner.__name__ if owner is not None else None
    table = {
        "Transaction": _fx_tx,
        "LTransaction": _fx_ltx,
        "PSBT": lambda: c19ops.build_psbt(1, ["wpkh", "tr"]),
        "PSBTView": _fx_psbtview,
        "HDKey": _fx_hd,
        "PublicKey": _fx_pubkey,
        "PrivateKey": lambda: __import__("embit").ec.PrivateKey(b"\x01" * 32),
        "Witness": lambda: __import__("embit").script.Witness([b"\x01"]),
        "Script": lambda: __import__("embit").script.Script(b"\x51"),
        "InputScope": lambda: c19ops.build_psbt(1, ["wpkh"]).inputs[0],
        "OutputScope": lambda: c19ops.build_psbt(1, ["wpkh"]).outputs[0],
        "Descriptor": lambda: __import__("embit.descriptor", fromlist=["Descriptor"]).Descriptor.from_string(c19ops.descriptor_text(0, 1)),
        "Key": lambda: __import__("embit.descriptor.arguments", fromlist=["Key"]).Key.from_string(
            "[%s/84h/0h]" % _fx_hd().my_fingerprint.hex() + _fx_hd().to_public().to_base58() + "/<0;1>/*"),
        "AllowedDerivation": lambda: __import__("embit.descriptor.arguments", fromlist=["AllowedDerivation"]).AllowedDerivation([[0, 1], None]),
    }
    mk = table.get(name)
    if mk is None and owner is not None:
        try:
            return owner()
        except Exception:
            return None
    try:
        return mk() if mk else None
    except Exception:
        return None


SIMPLE_ARGS = [0, 1, [0, 1], b"\x01" * 32, "m/0/1", bytearray(b"\x01" * 16), {1: 2}]


def call_variants(f, owner, focus=None, focus_values=None, limit=60):
    """yield (receiver, args list, text) for calls of f with simple arguments; the parameter `focus` ranges over
    `focus_values` (objects that CAN be modified)"""
    try:
        sig = inspect.signature(f)
    except (TypeError, ValueError):
        return
    ps = [p for p in sig.parameters.values() if p.kind in (p.POSITIONAL_ONLY, p.POSITIONAL_OR_KEYWORD)]
    is_method = owner is not None and ps and ps[0].name in ("self", "cls")
    static = owner is not None and isinstance(vars(owner).get(f.__name__), staticmethod)
    clsm = owner is not None and isinstance(vars(owner).get(f.__name__), classmethod)
    names = [p for p in ps[1:]] if is_method else ps
    req = [p for p in names if p.default is inspect.Parameter.empty or p.name == focus]
    # parameters up to the last required / focused one
    upto = 0
    for i, p in enumerate(names):
        if p in req:
            upto = i + 1
    names = names[:upto]
    import itertools
    pools = []
    for p in names:
        if p.name == focus:
            pools.append(list(focus_values))
        elif p.default is not inspect.Parameter.empty:
            pools.append([p.default])
        else:
            pools.append(SIMPLE_ARGS)
    n = 0
    for combo in itertools.product(*pools):
        if n >= limit:
            return
        n += 1
        import copy as _copy_mod
        args = [_copy_mod.deepcopy(a) if isinstance(a, MUTABLE) else a for a in combo]
        if is_method and not clsm:
            recv = receiver_fixture(owner)
            if recv is None:
                return
            yield (lambda a=args, r=recv: f(r, *a)), args, "%s(...).%s(%s)" % (owner.__name__, f.__name__, ", ".join(_short(x) for x in args)), recv
        elif clsm:
            yield (lambda a=args: f(owner, *a)), args, "%s.%s(%s)" % (owner.__name__, f.__name__, ", ".join(_short(x) for x in args)), None
        else:
            yield (lambda a=args: f(*a)), args, "%s(%s)" % (f.__name__, ", ".join(_short(x) for x in args)), None


def probe_default_by_calls(f, owner, default_obj):
    """call f with simple arguments, the default left out: the default object must still look as at import"""
    before = repr(default_obj)
    import copy as _copy_mod
    saved = _copy_mod.deepcopy(default_obj)
    tried = 0
    try:
        for call, args, text, _recv in call_variants(f, owner):
            tried += 1
            try:
                call()
            except Exception:
                continue
            if repr(default_obj) != before:
                return "confirmedUnsafe", "%s; the default object is now %s for every later call" % (text, _short(default_obj))
    finally:
        if repr(default_obj) != before:
            # put the default object back (this process goes on using the module)
            if isinstance(default_obj, dict):
                default_obj.clear(); default_obj.update(saved)
            elif isinstance(default_obj, list):
                default_obj[:] = saved
            elif isinstance(default_obj, set):
                default_obj.clear(); default_obj.update(saved)
            elif isinstance(default_obj, bytearray):
                default_obj[:] = saved
    return ("notProbed", "no call with simple arguments succeeded") if tried == 0 else (
        "notProbed", "%d calls with simple arguments left the default object unchanged" % tried)


def probe_param_by_calls(f, owner, param):
    """call f with objects that can be modified in the place of `param`: they must look the same afterwards"""
    values = [[0, 1], bytearray(b"\x01" * 16), bytearray(b"\x01" * 32), {1: 2}, [b"\x01"], {1, 2}, {(0, None)}]
    tried = 0
    for call, args, text, _recv in call_variants(f, owner, focus=param, focus_values=values):
        before = [snapshot(a) for a in args]
        try:
            call()
        except Exception:
            continue
        tried += 1
        after = [snapshot(a) for a in args]
        for x, y in zip(before, after):
            if x != y:
                return "confirmedUnsafe", "%s: the argument %s is %s after the call" % (text, _short(x), _short(y))
    if tried:
        return "confirmedSafe", "%d calls with modifiable objects for %s left them unchanged" % (tried, param)
    return "notProbed", "no call with simple arguments succeeded"


def probe_receiver_by_calls(f, owner):
    """call the method with simple arguments: the receiver must look the same afterwards"""
    tried = 0
    for call, args, text, recv in call_variants(f, owner):
        if recv is None:
            break
        before = snapshot(recv)
        try:
            call()
        except Exception:
            continue
        tried += 1
        after = snapshot(recv)
        if before != after:
            return "confirmedUnsafe", "%s: the receiver was %s and is %s after the call" % (text, _short(before), _short(after))
    if tried:
        return "confirmedSafe", "%d calls left the receiver unchanged" % tried
    return "notProbed", "no call with simple arguments succeeded"


def named_probes():
    """probes that are always run (they stay in the facts after a defect is repaired)"""
    out = []

    def mnemonic():
        from embit import bip39
        e = bytearray(b"\x01" * 16)
        return probe_arg_unchanged(bip39.mnemonic_from_bytes, [e], "bip39.mnemonic_from_bytes(bytearray(16))")
    out.append(("probe:bip39.mnemonic_from_bytes(bytearray)", mnemonic))

    def descriptor_key_flag():
        from embit.descriptor import Descriptor
        from embit.descriptor.arguments import Key
        k = Key.from_string(_fx_pubkey().to_string())
        d1 = Descriptor(key=k, taproot=True)
        s1 = d1.script_pubkey().data
        before = snapshot(k)
        d2 = Descriptor(key=k, wpkh=True)
        try:
            s1b = d1.script_pubkey().data
        except Exception as e:
            s1b = "raise %s" % type(e).__name__
        if s1 != s1b or d1.key.taproot is not True:
            return "confirmedUnsafe", ("k = Key(pub); d1 = Descriptor(key=k, taproot=True); Descriptor(key=k, wpkh=True); "
                                       "d1.script_pubkey() changed from %s to %s" % (s1.hex(), s1b if isinstance(s1b, str) else s1b.hex()))
        return "confirmedSafe", "Descriptor(key=k, taproot=True) is unaffected by Descriptor(key=k, wpkh=True)"
    out.append(("probe:Descriptor(key=k) twice with different taproot flags", descriptor_key_flag))

    def descriptor_arg_flag():
        from embit.descriptor import Descriptor
        from embit.descriptor.arguments import Key
        k = Key.from_string(_fx_pubkey().to_string())
        before = snapshot(k)
        Descriptor(key=k, taproot=True)
        if snapshot(k) != before:
            return "confirmedUnsafe", "k = Key(pub); Descriptor(key=k, taproot=True); k.taproot changed from False to %r" % k.taproot
        return "confirmedSafe", "Descriptor(key=k, taproot=True) leaves k unchanged"
    out.append(("probe:Descriptor(key=k, taproot=True) leaves k unchanged", descriptor_arg_flag))

    def taptree_arg_flag():
        from embit.descriptor.arguments import Key
        from embit.descriptor.miniscript import Pk
        from embit.descriptor.taptree import TapTree, TapLeaf
        k = Key.from_string(_fx_pubkey().to_string())
        leaf = TapLeaf(Pk(k, taproot=True))
        before = snapshot(k)
        TapTree(leaf)
        if snapshot(k) != before:
            return "confirmedUnsafe", "k = Key(pub); TapTree(TapLeaf(pk(k))); k.taproot changed from False to %r" % k.taproot
        return "confirmedSafe", "TapTree(TapLeaf(pk(k))) leaves k unchanged"
    out.append(("probe:TapTree(leaf) leaves the keys of the leaf unchanged", taptree_arg_flag))

    def blind_sum():
        from embit.util import secp256k1
        if not hasattr(secp256k1, "pedersen_blind_generator_blind_sum"):
            return "notProbed", "backend has no pedersen_blind_generator_blind_sum"
        vals = [1000, 1000]
        abfs = [bytes(bytearray(b"\x01" * 32)), bytes(bytearray(b"\x02" * 32))]
        vbfs = [bytes(bytearray(b"\x03" * 32)), bytes(bytearray(b"\x04" * 32))]
        return probe_arg_unchanged(secp256k1.pedersen_blind_generator_blind_sum, [vals, abfs, vbfs, 1],
                                   "secp256k1.pedersen_blind_generator_blind_sum(vals, abfs, vbfs, 1)")
    out.append(("probe:pedersen_blind_generator_blind_sum leaves vbfs unchanged", blind_sum))

    def rewind_twice():
        from embit.util import secp256k1
        if not hasattr(secp256k1, "rangeproof_rewind"):
            return "notProbed", "backend has no rangeproof_rewind"
        try:
            gen = secp256k1.generator_generate_blinded(b"\x07" * 32, b"\x08" * 32)
            res = []
            for i, (vbf, value) in enumerate([(b"\x03" * 32, 1000), (b"\x04" * 32, 2000)]):
                commit = secp256k1.pedersen_commit(vbf, value, gen)
                nonce = bytes([0x10 + i]) * 32
                proof = secp256k1.rangeproof_sign(nonce, value, commit, vbf, b"msg", b"", gen)
                res.append((proof, nonce, commit))
            r1 = secp256k1.rangeproof_rewind(res[0][0], res[0][1], res[0][2], b"", gen)
            vbf1 = bytes(bytearray(r1[1]))
            r2 = secp256k1.rangeproof_rewind(res[1][0], res[1][1], res[1][2], b"", gen)
        except Exception as e:
            return "notProbed", "rangeproof round trip raised %s: %s" % (type(e).__name__, e)
        txt = "r1 = rangeproof_rewind(proof1, ...); r2 = rangeproof_rewind(proof2, ...)"
        if r1[1] is r2[1] or bytes(bytearray(r1[1])) != vbf1:
            return "confirmedUnsafe", txt + "; r1's blinding factor is the same object as r2's (changed from %s to %s)" % (
                vbf1.hex()[:16], bytes(bytearray(r1[1])).hex()[:16])
        return "confirmedSafe", txt + "; r1 is unaffected by the second call"
    out.append(("probe:rangeproof_rewind twice returns independent blinding factors", rewind_twice))

    for cn in ("Transaction", "PSBTView"):
        out.append(("probe:%s.sighash_taproot twice with different values" % cn, (lambda cn=cn: probe_sighash_taproot(cn))))

    def tx_defaults():
        from embit.transaction import Transaction, TransactionInput
        a = Transaction()
        b = Transaction()
        if a.vin is b.vin or a.vout is b.vout:
            return "confirmedUnsafe", "a = Transaction(); b = Transaction(); a.vin is b.vin"
        return "confirmedSafe", "Transaction() twice: vin / vout are distinct lists"
    out.append(("probe:Transaction() twice shares no list", tx_defaults))

    def psbt_defaults():
        from embit.psbt import PSBT
        tx = _fx_tx()
        p = PSBT(tx)
        p.unknown[b"\xfc\x01x"] = b"v"
        p.inputs[0].unknown[b"\xfc\x01y"] = b"w"
        p.outputs[0].unknown[b"\xfc\x01z"] = b"u"
        try:
            q = PSBT(tx)
            ok = q.serialize() == PSBT.parse(PSBT(_fx_tx()).serialize()).serialize() and not q.unknown
            what = "carries the key" if not ok else ""
        except Exception as e:
            ok = False
            what = "raises %s: %s" % (type(e).__name__, e)
        finally:
            p.unknown.clear(); p.inputs[0].unknown.clear(); p.outputs[0].unknown.clear()
        if not ok:
            return "confirmedUnsafe", "p = PSBT(tx); p.unknown[k] = v; p.inputs[0].unknown[k] = v; PSBT(tx) " + what
        return "confirmedSafe", "PSBT(tx) is unaffected by unknown[...] set on an earlier PSBT(tx) and its scopes"
    out.append(("probe:PSBT(tx) after unknown[...] set on another PSBT(tx)", psbt_defaults))
    return out


# ------------------------------------------------------------------------------------------------ binding layer

def binding_buffers(mod, fd, f):
    """for every `_secp.<native>(...)` call: how each positional argument that is a local name was built
    -> [(native, position, name, how, detail)]"""
    params, kwonly, va, kw, defaults, ann = params_of(fd)
    allp = set(params + kwonly + ([va] if va else []) + ([kw] if kw else []))
    global _INT_PARAMS
    _INT_PARAMS = {p for p in allp if (isinstance(defaults.get(p), ast.Constant) and isinstance(defaults[p].value, int)
                                        and not isinstance(defaults[p].value, bool))
                   or (ann.get(p) is not None and ast.unparse(ann[p]) == "int")}
    binds = {}
    for node in ast.walk(fd):
        if isinstance(node, ast.Assign) and len(node.targets) == 1 and isinstance(node.targets[0], ast.Name):
            binds.setdefault(node.targets[0].id, []).append(node.value)
    rows = []
    libs, fn_alias = native_names(mod, fd)
    for node in ast.walk(fd):
        if not isinstance(node, ast.Call):
            continue
        native = native_symbol(node, libs, fn_alias)
        if native is None:
            continue
        for i, a in enumerate(node.args):
            if not isinstance(a, ast.Name):
                continue
            n = a.id
            if n in allp and n not in binds:
                rows.append((native, i, n, "param", ""))
                continue
            for e in binds.get(n, []):
                rows.append((native, i, n) + classify_buffer(e, allp, f))
    if rows:
        seen = {r[2] for r in rows}
        for n, es in binds.items():
            if n in seen:
                continue
            for e in es:
                c = classify_buffer(e, allp, f)
                if c[0] == "aliasOfArg":
                    # reaches native code through a pointer taken from it (c_char_p(x) / cast)
                    rows.append(("(by pointer)", 0, n) + c)
    return rows


_INT_PARAMS = set()


def native_names(mod, fd):
    """names under which the function reaches the native library: module-level names bound to a ctypes library (value
    level; `_secp` by convention), local aliases `lib = _secp`, and local names bound to one native function
    (`fn = _secp.sym`, `fn = getattr(_secp, 'sym')`)"""
    libs = {"_secp"}
    try:
        import ctypes
        libs |= {k for k, v in vars(mod).items() if isinstance(v, ctypes.CDLL)}
    except Exception:
        pass
    fn_alias = {}
    for _ in range(2):
        for node in ast.walk(fd):
            if isinstance(node, ast.Assign) and len(node.targets) == 1 and isinstance(node.targets[0], ast.Name):
                t, v = node.targets[0].id, node.value
                if isinstance(v, ast.Name) and v.id in libs:
                    libs.add(t)
                elif isinstance(v, ast.Attribute) and isinstance(v.value, ast.Name) and v.value.id in libs:
                    fn_alias[t] = v.attr
                elif isinstance(v, ast.Call) and isinstance(v.func, ast.Name) and v.func.id == "getattr" and len(v.args) >= 2 \
                        and isinstance(v.args[0], ast.Name) and v.args[0].id in libs:
                    a1 = v.args[1]
                    fn_alias[t] = a1.value if isinstance(a1, ast.Constant) and isinstance(a1.value, str) else "<computed symbol>"
    return libs, fn_alias


def native_symbol(node, libs, fn_alias):
    """the native symbol a call node reaches: `_secp.sym(...)`, `lib.sym(...)` with `lib = _secp`, `fn(...)` with
    `fn = _secp.sym`, `getattr(_secp, 'sym')(...)`; None for every other call"""
    f = node.func
    if isinstance(f, ast.Attribute) and isinstance(f.value, ast.Name) and f.value.id in libs:
        return f.attr
    if isinstance(f, ast.Name) and f.id in fn_alias:
        return fn_alias[f.id]
    if isinstance(f, ast.Call) and isinstance(f.func, ast.Name) and f.func.id == "getattr" and len(f.args) >= 2 \
            and isinstance(f.args[0], ast.Name) and f.args[0].id in libs:
        a1 = f.args[1]
        return a1.value if isinstance(a1, ast.Constant) and isinstance(a1.value, str) else "<computed symbol>"
    return None


def reaches_native(mod, fd):
    libs, fn_alias = native_names(mod, fd)
    return any(isinstance(n, ast.Call) and native_symbol(n, libs, fn_alias) is not None for n in ast.walk(fd))


def classify_buffer(e, params, f):
    src = ast.unparse(e)
    # bytes(N)
    if isinstance(e, ast.Call) and isinstance(e.func, ast.Name) and e.func.id == "bytes" and len(e.args) == 1:
        a = e.args[0]
        bn, _ = base_name(a)
        if isinstance(a, ast.Constant) and isinstance(a.value, int):
            return ("fresh", src)
        if isinstance(a, ast.Name) and a.id in _INT_PARAMS:
            return ("fresh", src + " (a length)")
        if bn in params:
            # bytes(x) of a bytes object is that object: the buffer IS the caller's argument
            return ("aliasOfArg", src)
        if not names_in(a):
            return ("fresh", src)
        return ("fresh", src) if isinstance(a, (ast.BinOp, ast.IfExp)) or (isinstance(a, ast.Name)) and a.id not in params else ("unknown", src)
    if isinstance(e, ast.Call) and call_name(e) in ("_copy", "copy", "bytearray", "create_string_buffer"):
        return ("fresh", src)
    if isinstance(e, ast.IfExp):
        a = classify_buffer(e.body, params, f)
        b = classify_buffer(e.orelse, params, f)
        if a[0] == b[0]:
            return (a[0], src)
        return ("unknown", src)
    if isinstance(e, ast.BinOp) and isinstance(e.op, ast.Mult):
        if not names_in(e):
            # constant expression: folded by the compiler into ONE object in co_consts
            try:
                v = eval(compile(ast.Expression(e), "<const>", "eval"), {})
            except Exception:
                v = None
            folded = any(isinstance(c, bytes) and c == v and len(c) > 1 for c in f.__code__.co_consts)
            return ("sharedConstant" if folded else "fresh", src + (" (one object in co_consts)" if folded else " (not folded)"))
        # <bytes constant> * n: for n == 1 CPython returns the constant object itself
        for side in (e.left, e.right):
            if isinstance(side, ast.Constant) and isinstance(side.value, bytes) and len(side.value) > 0:
                return ("sharedConstant", src + " (the constant itself when the factor is 1)")
        return ("fresh", src)
    if isinstance(e, ast.Constant) and isinstance(e.value, bytes):
        return ("sharedConstant", src)
    if isinstance(e, ast.Constant):
        return ("fresh", src + " (passed by value)")
    if isinstance(e, ast.Call):
        return ("fresh", src)
    return ("unknown", src)


# ------------------------------------------------------------------------------------------------ the generator

def lean_str(s):
    return '"' + s.replace("\\", "\\\\").replace('"', "'").replace("\n", " ") + '"'


def short_mod(m):
    return m[len("embit."):] if m.startswith("embit.") else m


SCANNED = []     # (short module, qualified name, first line incl. decorators, loaded function object?) of every function
                 # the last collect() analysed - harness/aliasnames.py emits it beside the independent enumeration


def _first_line(fd):
    return min([fd.lineno] + [d.lineno for d in getattr(fd, "decorator_list", [])])


def collect():
    del SCANNED[:]
    mods, skipped = embit_modules()
    probes = Probes()
    sites = []
    buffers = []
    obligations = []   # things that could not be analysed at all
    stats = {"modules": 0, "functions": 0, "params": 0}
    for mod in mods:
        try:
            tree, adefs = ast_functions(mod)
        except (OSError, TypeError, SyntaxError) as e:
            obligations.append("no source for module %s (%s)" % (mod.__name__, e))
            continue
        stats["modules"] += 1
        sm = short_mod(mod.__name__)
        visited = set()
        by_line = {}
        lambdas = {k[1]: v for k, v in adefs.items() if isinstance(k, tuple)}
        adefs = {k: v for k, v in adefs.items() if not isinstance(k, tuple)}
        for line, (q, fd, cls) in adefs.items():
            by_line[line] = (q, fd, cls)
            for d in fd.decorator_list:
                by_line.setdefault(d.lineno, (q, fd, cls))
        for line, ent in lambdas.items():
            by_line.setdefault(line, ent)
        class_memos = {}    # class name -> [(method, field, depends, If node)]
        class_nodes = {}
        for (q, f, owner) in functions_of(mod):
            ent = by_line.get(def_line(f))
            if ent is None:
                obligations.append("%s.%s: loaded function has no def in the module source (line %d)" % (sm, q, def_line(f)))
                continue
            aq, fd, acls = ent
            visited.add(fd.lineno)
            stats["functions"] += 1
            SCANNED.append((sm, q, def_line(f), True))
            analyse_function(sm, q, f, owner, fd, acls, probes, sites, buffers, class_memos, mod)
            if acls is not None:
                class_nodes[acls.name] = acls
        # defs the loaded module did not lead to (nested helpers, conditionally defined functions): AST only
        for line, (q, fd, cls) in adefs.items():
            if line in visited:
                continue
            SCANNED.append((sm, q, _first_line(fd), False))
            if ".<locals>." in q:
                analyse_function(sm, q, None, None, fd, cls, probes, sites, buffers, class_memos, mod)
                continue
            # a def that is shadowed / not bound at module level (e.g. `if micropython:` branches)
            analyse_function(sm, q, None, None, fd, cls, probes, sites, buffers, class_memos, mod)
        memo_sites(sm, mod, class_memos, class_nodes, sites)
    for name, fn in named_probes():
        try:
            res, txt = fn()
        except Exception as e:
            res, txt = "notProbed", "probe raised %s: %s" % (type(e).__name__, e)
        sites.append(Site(name, ".probe", res, txt, witness=txt if res == "confirmedUnsafe" else None))
    for o in obligations:
        sites.append(Site("unanalysed:" + o[:80], ".unclassified", "notProbed", o))
    return sites, buffers, skipped, stats


def analyse_function(sm, q, f, owner, fd, acls, probes, sites, buffers, class_memos, mod):
    params, kwonly, va, kw, dflt_nodes, ann = params_of(fd)
    is_method = acls is not None and params and params[0] in ("self", "cls")
    recv = params[0] if is_method else None
    plain = [p for p in params if p != recv] + kwonly
    allp = plain + ([va] if va else []) + ([kw] if kw else [])
    in_init = fd.name == "__init__"
    fname = "%s.%s" % (sm, q)

    # ---- (a) mutable defaults
    rdefaults = {}
    if f is not None:
        pos = list(f.__code__.co_varnames[:f.__code__.co_argcount])
        d = f.__defaults__ or ()
        for n, v in zip(pos[len(pos) - len(d):], d):
            rdefaults[n] = v
        rdefaults.update(f.__kwdefaults__ or {})
    for p in plain:
        node = dflt_nodes.get(p)
        if node is None:
            continue
        has_runtime = p in rdefaults
        val = rdefaults.get(p)
        mutable = isinstance(val, MUTABLE) if has_runtime else is_display(node)
        u = analyse_param(fd, p)
        literal = is_display(node)
        if not mutable:
            # a None default replaced by a fresh container is the repaired form of a mutable default: keep it visible
            if in_init and isinstance(node, ast.Constant) and node.value is None and u.none_guard:
                res, txt = ("notProbed", "")
                if owner is not None:
                    res, txt = probes.ctor_identity(owner, p)
                sites.append(Site("%s(%s)" % (fname, p), ".ctorParam .noneGuard", res,
                                  "default None; `if %s is None: %s = %s`; %s" % (p, p, u.none_guard, txt)))
            continue
        if not literal:
            # default refers to a module-level constant table (NETWORKS[...], WORDLIST): shared by design
            ev = "default %s is the module constant itself (a %s); body: %s" % (
                ast.unparse(node), type(val).__name__, usage_text(u))
            if u.mutated or u.attr_written:
                sites.append(Site("%s(%s)" % (fname, p), ".argMutation true", "notProbed", ev))
            else:
                sites.append(Site("%s(%s)" % (fname, p), ".sharedConstantDefault", "notProbed", ev))
            continue
        # literal mutable default
        ev = "default %s; body: %s" % (ast.unparse(node), usage_text(u))
        if in_init and owner is not None:
            res, txt = probes.ctor_identity(owner, p)
        elif f is not None:
            res, txt = probes.default_unchanged(val, node)
            if res == "confirmedSafe" and (u.stored or u.returned or u.mutated or u.attr_written or u.forwarded):
                r2 = probe_default_by_calls(f, owner, val)
                if r2[0] == "confirmedUnsafe":
                    res, txt = r2
                else:
                    res, txt = "notProbed", txt + "; " + r2[1]
        else:
            res, txt = "notProbed", "function is not reachable from the loaded module"
        if u.stored or u.returned or u.mutated or u.attr_written:
            kind = ".ctorParam .storesDefault" if in_init else ".mutableDefault false"
        elif u.forwarded:
            # handed to another callable (super().__init__(unknown)): only the probe can tell
            if res == "confirmedSafe":
                kind = ".ctorParam .copies" if in_init else ".mutableDefault true"
            elif res == "confirmedUnsafe":
                kind = ".ctorParam .storesDefault" if in_init else ".mutableDefault false"
            else:
                kind = ".unclassified"
            ev += "; forwarded to " + ", ".join(sorted(set(u.forwarded)))
        elif u.copied:
            kind = ".ctorParam .copies" if in_init else ".mutableDefault true"
        else:
            kind = ".mutableDefault true"
        sites.append(Site("%s(%s)" % (fname, p), kind, res, ev + "; " + txt,
                          witness=txt if res == "confirmedUnsafe" else None))

    # ---- (b) memos: `if self.X is None:` / `if not self.X:` guarding an assignment to self.X
    if is_method and recv == "self":
        for node in ast.walk(fd):
            if not isinstance(node, ast.If):
                continue
            fld = memo_field(node.test)
            if fld is None:
                continue
            assigns = [st for st in ast.walk(node) if isinstance(st, ast.Assign) and any(
                isinstance(t, ast.Attribute) and isinstance(t.value, ast.Name) and t.value.id == "self" and t.attr == fld
                for t in st.targets)]
            if not assigns:
                continue
            # a memo hands the cached field back: `return self.X` somewhere in the method
            if not returns_field(fd, fld):
                continue
            used = set()
            for st in node.body:
                used |= names_in(st)
            # locals computed from parameters before the guard count as parameters (`v = sum(amounts); if self._g is None:
            # self._g = v`): taint the locals assigned from an expression that mentions a (tainted) parameter
            tainted = set(allp)
            for _ in range(3):
                for st in ast.walk(fd):
                    if isinstance(st, ast.Assign) and (names_in(st.value) & tainted):
                        for t in st.targets:
                            for nm in ast.walk(t):
                                if isinstance(nm, ast.Name) and nm.id != "self":
                                    tainted.add(nm.id)
            dep = sorted(x for x in used if x in tainted)
            keyed = memo_is_keyed(node.test, fld)
            if keyed:
                # locals computed from the parameters (key = tuple(amounts)) count as the parameters
                dep = dep or sorted(x for x in names_in(node.test) if x not in ("self",))
                MEMO_KEY_KINDS["%s[%s]" % (fname, fld)] = memo_key_kind(fd, node.test, fld, allp)
            class_memos.setdefault(acls.name, []).append((fd.name, fld, dep, fname, in_init, keyed))

    # ---- a method that hands back a newly built object (derive / branch / to_public ...) must not write its receiver
    if is_method and recv == "self" and not in_init and acls is not None:
        builds = any(isinstance(r, ast.Return) and isinstance(r.value, ast.Call) for r in ast.walk(fd))
        if builds:
            memo_fields = set()
            if owner is not None:
                for k in owner.__mro__:
                    memo_fields |= set(class_memo_fields(k))
            wr = []
            for node in ast.walk(fd):
                tg = []
                if isinstance(node, ast.Assign):
                    tg = node.targets
                elif isinstance(node, ast.AugAssign):
                    tg = [node.target]
                for t in tg:
                    for tt in (t.elts if isinstance(t, ast.Tuple) else [t]):
                        bn, d = base_name(tt)
                        if bn == "self" and d >= 1:
                            top = tt
                            while isinstance(top, (ast.Attribute, ast.Subscript)) and not (
                                    isinstance(top, ast.Attribute) and isinstance(top.value, ast.Name)):
                                top = top.value
                            if not (isinstance(top, ast.Attribute) and top.attr in memo_fields):
                                wr.append(ast.unparse(tt) + " = ...")
                if isinstance(node, ast.Call) and isinstance(node.func, ast.Attribute) and node.func.attr in MUTATOR_METHODS \
                        and not (node.func.attr == "add" and len(node.args) != 1):
                    bn, d = base_name(node.func.value)
                    if bn == "self" and d >= 1:
                        wr.append(ast.unparse(node.func) + "(...)")
            if wr:
                res, txt = ("notProbed", "not reachable from the loaded module")
                if f is not None:
                    res, txt = probe_receiver_by_calls(f, owner)
                # the syntax is decisive here (a probe may simply not reach the branch); the probe adds the witness
                sites.append(Site("%s(self)" % fname, ".argMutation true", res if res == "confirmedUnsafe" else "notProbed",
                                  "returns a newly built object and writes its receiver: %s; %s" % ("; ".join(sorted(set(wr))[:3]), txt),
                                  witness=txt if res == "confirmedUnsafe" else None))

    # ---- (c) / (d) writes through parameters and, in constructors, into objects reached from the arguments
    writes, org = find_writes(fd, set(allp), in_init)
    seen = set()
    for what, o, bn in writes:
        pset = sorted(x[6:] for x in o if x.startswith("param:"))
        if in_init and bn not in allp and (pset or "self" in o):
            # a local of the constructor that ranges over objects reached from its arguments
            key = ("init", bn)
            if key in seen:
                continue
            seen.add(key)
            sites.append(Site("%s[%s]" % (fname, bn), ".ctorWritesArgObjects", "notProbed",
                              "%s where %s ranges over objects reached from the constructor's arguments" % (what, bn)))
        elif pset:
            p = pset[0]
            key = ("arg", p)
            if key in seen:
                continue
            seen.add(key)
            a = ann.get(p)
            if what.endswith("op= ...") and what.startswith(p + " ") and (
                    (a is not None and ast.unparse(a) in IMMUTABLE_ANNOTATIONS) or immutable_default(dflt_nodes.get(p))
                    or rebinding_is_arithmetic(fd, p)):
                continue
            if is_stream_param(p, fd):
                continue
            res, txt = ("notProbed", "not reachable from the loaded module")
            if f is not None and acls is None and ".<locals>." not in q:
                res, txt = probe_function_args(fname, f)
                if res == "notProbed":
                    res, txt = probe_param_by_calls(f, None, p)
            elif f is not None and ".<locals>." not in q:
                res, txt = probe_param_by_calls(f, owner, p)
            # the probe passes objects that CAN be modified (bytearray, list, fresh bytes): unchanged arguments refute the hazard
            sites.append(Site("%s(%s)" % (fname, p), ".argMutation %s" % ("false" if res == "confirmedSafe" else "true"), res,
                              "%s where %s is a parameter; %s" % (what, p, txt),
                              witness=txt if res == "confirmedUnsafe" else None))
        elif in_init and "self" in o and bn not in ("self",):
            key = ("init", bn)
            if key in seen:
                continue
            seen.add(key)
            sites.append(Site("%s[%s]" % (fname, bn), ".ctorWritesArgObjects", "notProbed",
                              "%s where %s ranges over objects reached from the constructor's arguments" % (what, bn)))
        elif "unknown" in o and "fresh" not in o and "self" not in o:
            key = ("unk", bn)
            if key in seen:
                continue
            seen.add(key)
            if bn in GLOBAL_OK.get(fname, ()):
                continue
            sites.append(Site("%s[%s]" % (fname, bn), ".unclassified", "notProbed",
                              "%s: cannot tell where %s comes from" % (what, bn)))

    # ---- (e) buffers handed to native code (ctypes binding)
    if f is not None and (("_secp" in names_in(fd) and sm.endswith("ctypes_secp256k1")) or (has_native_lib(mod) and reaches_native(mod, fd))):
        rows = binding_buffers(mod, fd, f)
        rets = [n for n in ast.walk(fd) if isinstance(n, ast.Return)]
        returns_param = any(isinstance(r.value, ast.Name) and r.value.id in allp for r in rets if r.value is not None)
        returns_nothing = all(r.value is None or (isinstance(r.value, ast.Constant) and r.value.value is None) for r in rets)
        direct = sorted({n for (_, _, n, how, _) in rows if how == "param" and n != "context"})
        for (native, i, n, how, detail) in rows:
            if how == "param":
                continue
            buffers.append((q, native, i, n, how, detail))
            if how == "sharedConstant":
                sites.append(Site("%s[%s]" % (fname, n), ".outBuffer .sharedConstant", "notProbed",
                                  "%s = %s passed to %s (argument %d)" % (n, detail, native, i)))
            elif how == "aliasOfArg":
                sites.append(Site("%s[%s]" % (fname, n), ".outBuffer .aliasOfArg", "notProbed",
                                  "%s = %s is the caller's object; passed to %s (argument %d)" % (n, detail, native, i)))
            elif how == "unknown":
                sites.append(Site("%s[%s]" % (fname, n), ".unclassified", "notProbed",
                                  "%s = %s passed to %s: cannot tell whether the buffer is fresh" % (n, detail, native)))
        if rows and direct and (returns_param or (returns_nothing and not returns_bool(fd))):
            res, txt = probe_function_args(fname, getattr(mod, fd.name, f))
            sites.append(Site(fname, ".inPlaceNative %s" % ("false" if res == "confirmedSafe" else "true"), res,
                              "passes its parameter(s) %s to native code and returns %s; %s" % (
                                  ", ".join(direct), "that parameter" if returns_param else "nothing", txt),
                              witness=txt if res == "confirmedUnsafe" else None))


def returns_bool(fd):
    return False


def has_native_lib(mod):
    try:
        import ctypes
        return any(isinstance(v, ctypes.CDLL) for v in vars(mod).values())
    except Exception:
        return False


def is_stream_param(p, fd):
    """I/O parameters (streams) are written by contract"""
    return p in ("stream", "s", "sin", "sout", "sig_stream", "writable_stream", "out_stream", "b") and any(
        isinstance(n, ast.Call) and isinstance(n.func, ast.Attribute) and n.func.attr in ("read", "write", "seek", "tell")
        and isinstance(n.func.value, ast.Name) and n.func.value.id == p for n in ast.walk(fd))


def immutable_default(node):
    return isinstance(node, ast.Constant) and isinstance(node.value, (int, str, bytes, float)) and node.value is not None


def rebinding_is_arithmetic(fd, p):
    """`p += <int literal or name in CAPS>`, or p compared / used with integers elsewhere: an int parameter"""
    for node in ast.walk(fd):
        if isinstance(node, ast.AugAssign) and isinstance(node.target, ast.Name) and node.target.id == p:
            v = node.value
            if isinstance(v, ast.Constant) and isinstance(v.value, int):
                return True
            if isinstance(v, ast.Name) and v.id.isupper():
                return True
            if isinstance(node.op, (ast.Sub, ast.Mult, ast.LShift, ast.RShift, ast.BitOr, ast.BitAnd, ast.BitXor, ast.Mod,
                                    ast.FloorDiv, ast.Pow)):
                return True
    return False


GLOBAL_OK = {}


def usage_text(u):
    bits = []
    if u.none_guard:
        bits.append("None-guarded (%s)" % u.none_guard)
    if u.stored:
        bits.append("stored by reference in " + ", ".join(sorted(set(u.stored))))
    if u.copied:
        bits.append("copied")
    if u.mutated:
        bits.append("mutated (%s)" % "; ".join(sorted(set(u.mutated))))
    if u.attr_written:
        bits.append("attribute written (%s)" % "; ".join(sorted(set(u.attr_written))))
    if u.returned:
        bits.append("returned")
    if u.forwarded:
        bits.append("passed to " + ", ".join(sorted(set(u.forwarded))))
    if u.iterated and not bits:
        bits.append("only iterated")
    return ", ".join(bits) or "only read"


def returns_field(fd, fld):
    """the method hands the cached field back: some `return` expression is built on self.<fld>"""
    for r in ast.walk(fd):
        if isinstance(r, ast.Return) and r.value is not None:
            for n in ast.walk(r.value):
                if isinstance(n, ast.Attribute) and isinstance(n.value, ast.Name) and n.value.id == "self" and n.attr == fld:
                    return True
    return False


def memo_field(test):
    """self.X for tests `self.X is None` and `not self.X`"""
    def selfattr(e):
        if isinstance(e, ast.Attribute) and isinstance(e.value, ast.Name) and e.value.id == "self":
            return e.attr
        return None
    if isinstance(test, ast.Compare) and len(test.ops) == 1 and isinstance(test.ops[0], ast.Is) \
            and isinstance(test.comparators[0], ast.Constant) and test.comparators[0].value is None:
        return selfattr(test.left)
    if isinstance(test, ast.UnaryOp) and isinstance(test.op, ast.Not):
        return selfattr(test.operand)
    # keyed memo: `self.X is None or self.X[0] != key`
    if isinstance(test, ast.BoolOp) and isinstance(test.op, ast.Or) and test.values:
        return memo_field(test.values[0])
    return None


def memo_is_keyed(test, fld):
    """the guard also compares something stored in self.<fld> with a value computed from the arguments"""
    if not (isinstance(test, ast.BoolOp) and isinstance(test.op, ast.Or)):
        return False
    for v in test.values[1:]:
        if isinstance(v, ast.Compare) and any(
                isinstance(n, ast.Attribute) and isinstance(n.value, ast.Name) and n.value.id == "self" and n.attr == fld
                for n in ast.walk(v)):
            return True
    return False


# site name of a keyed memo -> ("copies" | "aliases", how): filled by analyse_function, completed by the in-place probe
MEMO_KEY_KINDS = {}
MEMO_KEYS = []          # rows of `Gen.Alias.memoKeys`: (site name, key copies the argument's contents?, evidence)

# calls that build a NEW immutable object from the CONTENTS of their argument
COPYING_CALLS = {"tuple", "bytes", "frozenset", "str", "repr", "hash", "int", "len", "sum", "hexlify", "sorted_tuple"}
# element expressions of a comprehension that are NEW immutable objects holding the element's contents at call time
IMMUTABLE_ELEMENT_CALLS = {"bytes", "str", "repr", "hexlify", "int"}


def memo_key_kind(fd, test, fld, params):
    """how the key of a keyed memo is built from the parameters. The key is the expression compared with what is
    stored in self.<fld> (`self._m[0] != key`); a local name is followed to its (single) assignment in the method.
    copies: a call of tuple / bytes / frozenset / str ... (new immutable object holding the contents at call time);
    aliases: a parameter itself, an attribute / element of it, or a display (tuple / list literal) containing one -
    the stored key then IS the caller's object and compares equal to itself after an in-place edit."""
    expr = None
    for v in (test.values[1:] if isinstance(test, ast.BoolOp) else []):
        if isinstance(v, ast.Compare) and len(v.comparators) == 1:
            sides = [v.left, v.comparators[0]]
            mine = [e for e in sides if any(isinstance(n, ast.Attribute) and isinstance(n.value, ast.Name)
                                            and n.value.id == "self" and n.attr == fld for n in ast.walk(e))]
            other = [e for e in sides if e not in mine]
            if mine and other:
                expr = other[0]
    if expr is None:
        return ("aliases", "cannot find the key expression in the guard")
    seen = 0
    while isinstance(expr, ast.Name) and expr.id not in params and seen < 4:
        seen += 1
        defs = [st.value for st in ast.walk(fd) if isinstance(st, ast.Assign) and len(st.targets) == 1
                and isinstance(st.targets[0], ast.Name) and st.targets[0].id == expr.id]
        if len(defs) != 1:
            return ("aliases", "the key `%s` has %d assignments" % (expr.id, len(defs)))
        expr = defs[0]
    text = ast.unparse(expr)

    def aliasing(e):
        if isinstance(e, ast.Name):
            return e.id in params
        if isinstance(e, (ast.Attribute, ast.Subscript, ast.Starred)):
            return aliasing(e.value)
        if isinstance(e, (ast.Tuple, ast.List, ast.Set)):
            return any(aliasing(x) for x in e.elts)
        return False
    if aliasing(expr):
        return ("aliases", "key = %s holds the caller's object" % text)
    if isinstance(expr, ast.Call) and call_name(expr) in COPYING_CALLS and expr.args \
            and isinstance(expr.args[0], (ast.ListComp, ast.GeneratorExp, ast.SetComp)):
        # tuple([sc.data for sc in spks]) is a SHALLOW copy: a new tuple whose elements are the objects the caller's
        # elements hold (a bytearray `.data` edited in place then compares equal to itself: audit2 B-7 / X5). Deep only
        # when every element is itself rebuilt as an immutable object: tuple([bytes(sc.data) for sc in spks])
        elt = expr.args[0].elt
        if not (isinstance(elt, ast.Constant) or (isinstance(elt, ast.Call) and call_name(elt) in IMMUTABLE_ELEMENT_CALLS)):
            return ("aliases", "key = %s copies the list but holds each element's own object (%s): an element edited in "
                               "place still compares equal to itself" % (text, ast.unparse(elt)))
    if isinstance(expr, ast.Call) and call_name(expr) in COPYING_CALLS:
        # tuple(p) copies the list but not its elements: elements that are parameters' own mutable objects are found by the
        # in-place probe (it edits the elements too); an argument that is a comprehension over attributes (sc.data) is fine
        return ("copies", "key = %s is a new immutable object built from the contents" % text)
    if isinstance(expr, ast.Constant):
        return ("copies", "key = %s is a constant" % text)
    return ("aliases", "key = %s: cannot tell that it copies the argument's contents" % text)


def probe_memo_inplace(clsname, method):
    """the caller keeps ONE list, edits it in place and hands the same object in again; then edits the elements in
    place (objects with a `.data` attribute). Both answers must equal those of a fresh receiver."""
    fx = _memo_fixtures().get(clsname)
    if fx is None or method not in fx[1]:
        return "notProbed", "no fixture for %s.%s" % (clsname, method)
    mk, calls = fx
    (l1,), (l2,) = calls[method]
    try:
        r = mk()
        held = list(l1)
        getattr(r, method)(held)
        held[:] = list(l2)
        second = getattr(r, method)(held)
        fresh = getattr(mk(), method)(list(l2))
        third = fresh3 = None
        if all(hasattr(x, "data") for x in l1):
            r = mk()
            held = [type(x)(x.data) for x in l1]
            getattr(r, method)(held)
            for x, y in zip(held, l2):
                x.data = y.data
            third = getattr(r, method)(held)
            fresh3 = getattr(mk(), method)([type(y)(y.data) for y in l2])
        # one level down (audit2 B-7 / X5): elements whose `.data` is a caller-owned BYTEARRAY, edited in place (one byte,
        # then the whole contents) - same list object, same element objects, same bytearray objects
        fourth = fresh4 = fifth = fresh5 = None
        if all(isinstance(getattr(x, "data", None), (bytes, bytearray)) for x in l1):
            r = mk()
            held = [type(x)(bytearray(x.data)) for x in l1]
            getattr(r, method)(held)
            held[-1].data[-1] ^= 0x77
            fourth = getattr(r, method)(held)
            fresh4 = getattr(mk(), method)([type(x)(bytes(x.data)) for x in held])
            for x, y in zip(held, l2):
                x.data[:] = y.data
            fifth = getattr(r, method)(held)
            fresh5 = getattr(mk(), method)([type(y)(bytes(y.data)) for y in l2])
    except Exception as e:
        return "notProbed", "%s.%s raised %s: %s" % (clsname, method, type(e).__name__, e)
    if fourth != fresh4 or fifth != fresh5:
        return "confirmedUnsafe", ("a = [S(bytearray(d)) ...]; x.%s(a); a[-1].data[-1] ^= 0x77 (the caller's bytearray edited in "
                                   "place); x.%s(a) differs from fresh.%s(equal scripts): the stored key holds the caller's "
                                   "bytearray objects" % (method, method, method))
    txt = "a = list(A1); x.%s(a); a[:] = A2; x.%s(a) (the same list object) vs fresh.%s(A2)" % (method, method, method)
    if second != fresh:
        return "confirmedUnsafe", txt + " differ (the stored key is the caller's list)"
    if third != fresh3:
        return "confirmedUnsafe", txt + " agree, but after editing the ELEMENTS in place (s.data = ...) the answers differ"
    return "confirmedSafe", txt + " agree (also with the elements edited in place, and with bytearray-backed elements edited byte by byte)"


def memo_sites(sm, mod, class_memos, class_nodes, sites):
    for cname, memos in sorted(class_memos.items()):
        cls = getattr(mod, cname, None)
        fields = {m[1] for m in memos}
        reads = {}
        for k in (cls.__mro__ if isinstance(cls, type) else ()):
            for fl, rd in class_memo_fields(k).items():
                fields.add(fl)
                reads.setdefault(fl, set()).update(rd)
        # invalidator: a method (other than __init__ and the memo methods) of the class or its bases that resets the field
        resetters = {}
        writers = set()   # methods assigning any other attribute of self (the class is not immutable after __init__)
        mro = [k for k in (cls.__mro__ if isinstance(cls, type) else ()) if k is not object]
        for k in mro:
            try:
                src = inspect.getsource(k)
            except (OSError, TypeError):
                continue
            try:
                ktree = ast.parse(_dedent(src))
            except SyntaxError:
                continue
            for fd in ast.walk(ktree):
                if not isinstance(fd, ast.FunctionDef):
                    continue
                for node in ast.walk(fd):
                    tg = []
                    if isinstance(node, ast.Assign):
                        tg = node.targets
                        val = node.value
                    elif isinstance(node, ast.AugAssign):
                        tg = [node.target]
                        val = None
                    for t in tg:
                        for tt in (t.elts if isinstance(t, ast.Tuple) else [t]):
                            bn, depth = base_name(tt)
                            if bn != "self" or depth == 0:
                                continue
                            top = tt
                            while isinstance(top, (ast.Attribute, ast.Subscript)) and not (
                                    isinstance(top, ast.Attribute) and isinstance(top.value, ast.Name)):
                                top = top.value
                            attr = top.attr if isinstance(top, ast.Attribute) else None
                            if attr in fields:
                                if isinstance(val, ast.Constant) and val.value in (None, b"", "") and fd.name != "__init__":
                                    resetters.setdefault(attr, set()).add("%s.%s" % (k.__name__, fd.name))
                            elif fd.name != "__init__":
                                writers.add("%s.%s" % (k.__name__, fd.name))
        for (meth, fld, dep, fname, in_init, keyed) in memos:
            if in_init:
                continue
            if keyed:
                res, txt = probe_memo(cname, meth)
                name = "%s[%s]" % (fname, fld)
                kind, how = MEMO_KEY_KINDS.get(name, ("aliases", "key expression not analysed"))
                res2, txt2 = probe_memo_inplace(cname, meth)
                copies = kind == "copies" and res2 != "confirmedUnsafe"
                MEMO_KEYS.append((name, copies, "%s; %s" % (how, txt2)))
                if res == "confirmedSafe" and (res2 == "confirmedUnsafe" or kind != "copies"):
                    res = "confirmedUnsafe" if res2 == "confirmedUnsafe" else "notProbed"
                    txt = txt + "; BUT " + how + "; " + txt2
                elif res2 == "confirmedSafe":
                    txt = txt + "; " + how + "; " + txt2
                sites.append(Site(name, ".memoKeyed", res,
                                  "self.%s holds (key, value); the guard recomputes when the key built from the arguments "
                                  "differs; %s" % (fld, txt), witness=txt if res == "confirmedUnsafe" else None))
                continue
            inval = sorted(resetters.get(fld, ()))
            immutable_cls = not writers
            name = "%s[%s]" % (fname, fld)
            if dep:
                res, txt = probe_memo(cname, meth)
                sites.append(Site(name, ".memo true %s" % ("true" if inval else "false"), res,
                                  "self.%s is filled on the first call from the parameter(s) %s and returned for every later "
                                  "call whatever its arguments; %s" % (fld, ", ".join(dep), txt),
                                  witness=txt if res == "confirmedUnsafe" else None))
            else:
                others = sorted({m for v in resetters.values() for m in v})
                if inval:
                    how, ok = "reset by " + ", ".join(inval), True
                elif others and any(reads.get(fld, set()) & reads.get(g, set()) for g in resetters):
                    # it is computed from receiver data that an invalidated memo is computed from as well
                    common = sorted(set().union(*[reads.get(fld, set()) & reads.get(g, set()) for g in resetters]))
                    how, ok = "NOT reset by the invalidator %s although it is computed from self.%s like the fields that are" % (
                        ", ".join(others), ", self.".join(common)), False
                elif immutable_cls:
                    how, ok = "no method of the class assigns its other attributes after __init__", True
                else:
                    how, ok = "no invalidator; attributes are written by " + ", ".join(sorted(writers)[:4]), False
                sites.append(Site(name, ".memo false %s" % ("true" if ok else "false"), "notProbed",
                                  "self.%s caches a value computed from the receiver only; %s" % (fld, how)))


_CMF = {}


def class_memo_fields(k):
    """{memo field: receiver attributes read while computing it} for one class, by AST
    (pattern `if self.X is None / not self.X: self.X = ...; return self.X`)"""
    if k in _CMF:
        return _CMF[k]
    out = {}
    try:
        tree = ast.parse(_dedent(inspect.getsource(k)))
    except (OSError, TypeError, SyntaxError):
        _CMF[k] = out
        return out
    for fd in ast.walk(tree):
        if not isinstance(fd, ast.FunctionDef):
            continue
        for node in ast.walk(fd):
            if isinstance(node, ast.If):
                fld = memo_field(node.test)
                if fld and returns_field(fd, fld):
                    reads = set()
                    for st in node.body:
                        for n in ast.walk(st):
                            if isinstance(n, ast.Attribute) and isinstance(n.value, ast.Name) and n.value.id == "self" \
                                    and n.attr != fld:
                                reads.add(n.attr)
                    out.setdefault(fld, set()).update(reads)
    _CMF[k] = out
    return out


def _dedent(src):
    import textwrap
    return textwrap.dedent(src)


LAST_SHARED = None      # the shared-state translator's JSON of the last generate() (targets for generic histories)


def shared_sites():
    """the second part of the translator (harness/sharedstate.py), run in a brand-new interpreter so that its pictures
    are import-time pictures; names made distinct deterministically"""
    global LAST_SHARED
    import sharedstate
    try:
        d = sharedstate.collect_in_subprocess()
    except Exception as e:
        d = {"sites": [{"name": "unanalysed:shared-state translator", "kind": ".unclassified", "probe": "notProbed",
                        "evidence": "%s: %s" % (type(e).__name__, str(e)[:500]), "target": None}], "stats": {}}
    names = {}
    for x in d["sites"]:
        n = names.get(x["name"], 0)
        names[x["name"]] = n + 1
        if n:
            x["name"] = "%s#%d" % (x["name"], n + 1)
    LAST_SHARED = d
    return d


def generate():
    import facts
    MEMO_KEY_KINDS.clear()
    del MEMO_KEYS[:]
    sites, buffers, skipped, stats = collect()
    names = {}
    for s in sites:
        # site names are keys (known findings refer to them): make duplicates distinct deterministically
        n = names.get(s.name, 0)
        names[s.name] = n + 1
        if n:
            s.name = "%s#%d" % (s.name, n + 1)
    out = []
    w = out.append
    w("import EmbitModel.Model.Heap")
    w("import EmbitModel.Model.HeapShared")
    w("/-")
    w("  GENERATED by harness/aliasfacts.py (facts.regenerate \"alias\") from the loaded embit modules plus their")
    w("  source (ast) — do not edit. One record per place where hidden shared state or argument mutation could arise:")
    w("  mutable defaults, memo fields, writes through parameters, constructors writing into argument objects, byte")
    w("  buffers handed to native code, plus the always-on run-time probes. `Props/C19.facts_safe` is checked over it.")
    w("  scanned: %d modules, %d functions." % (stats["modules"], stats["functions"]))
    if skipped:
        w("  not importable on CPython (skipped): " + ", ".join(n for n, _ in skipped))
    w("-/")
    w("namespace Embit.Gen.Alias")
    w("open Embit.Heap")
    w("")
    w("def sites : List Site := [")
    w(",\n".join(s.row() for s in sites))
    w("]")
    w("")
    w("/-- (function, native symbol, argument position, local name, how the buffer is built, expression) — for C20 -/")
    w("def outBuffers : List (String × String × Nat × String × BufKind × String) := [")
    w(",\n".join('  (%s, %s, %d, %s, .%s, %s)' % (lean_str(q), lean_str(nat), i, lean_str(n), how if how != "unknown" else "unknownBuf",
                                                 lean_str(det)) for (q, nat, i, n, how, det) in buffers))
    w("]")
    w("")
    w("/-- keyed memos: (site, does the stored key COPY the argument's contents?) - `false`: the key is (or contains) the")
    w("    caller's object, so an in-place edit of that object makes the memo answer from the past (Model/HeapAlias.lean).")
    w("    From the AST of the guard's key expression AND a run-time probe that edits the caller's list in place. -/")
    w("def memoKeys : List (String × Bool) := [")
    w(",\n".join("  (%s, %s)" % (lean_str(n), "true" if cp else "false") for (n, cp, ev) in MEMO_KEYS))
    w("]")
    w("")
    w("/-- evidence for `memoKeys`, same order -/")
    w("def memoKeyEvidence : List String := [")
    w(",\n".join("  " + lean_str(ev[:400]) for (n, cp, ev) in MEMO_KEYS))
    w("]")
    w("")
    shared = shared_sites()
    w("/-- hidden shared state at module and class level (harness/sharedstate.py: inventory of the loaded modules, ast,")
    w("    probes run in children of a pristine process): every module- / class-level mutable object, every flow of one")
    w("    into an instance attribute or a return value, every function that writes one or rebinds a name under `global`,")
    w("    memo fields in other shapes, cache decorators, module-level memo dictionaries, aliases of the native library. -/")
    w("def sharedSites : List Embit.HeapShared.SharedSite := [")
    w(",\n".join('  { name := %s, kind := %s, probe := .%s,\n    evidence := %s }' % (
        lean_str(x["name"]), x["kind"], x["probe"], lean_str(x["evidence"][:700])) for x in shared["sites"]))
    w("]")
    w("")
    w("/-- what the shared-state translator looked at (a table that silently shrinks breaks `shared_facts_cover_the_anchors`) -/")
    w("def sharedScan : List (String × Nat) := [")
    w(",\n".join("  (%s, %d)" % (lean_str(k), v) for k, v in sorted(shared["stats"].items())))
    w("]")
    w("")
    w("end Embit.Gen.Alias")
    return os.path.join(facts.GEN_DIR, "AliasFacts.lean"), "\n".join(out) + "\n"


if __name__ == "__main__":
    sys.path.insert(0, os.path.join(os.environ.get("EMBIT_REPO", "/repo"), "src"))
    sites, buffers, skipped, stats = collect()
    for s in sites:
        print("%-70s %-32s %-16s %s" % (s.name, s.kind, s.probe, s.evidence[:150]))
    print(stats, "skipped:", skipped)
    print(len(buffers), "buffers")
    d = shared_sites()
    for x in d["sites"]:
        print("%-70s %-32s %-16s %s" % (x["name"], x["kind"], x["probe"], x["evidence"][:150]))
    print(d["stats"])
