"""Shared machinery for every property check: build + audit of the Lean development, the driver pipe,
case bookkeeping, verdict logic (VIOLATION / KNOWN-FINDING), evidence and replay files."""
import fcntl
import hashlib
import json
import os
import random
import re
import subprocess
import sys
import time

VERIF = os.path.dirname(os.path.dirname(os.path.abspath(__file__)))
LEAN = os.path.join(VERIF, "lean")
REPO = os.environ.get("EMBIT_REPO", "/repo")
DRIVER = os.path.join(LEAN, ".lake", "build", "bin", "driver")
ALLOWED_AXIOMS = {"propext", "Classical.choice", "Quot.sound"}
FORBIDDEN = re.compile(
    r"\b(sorry|admit|native_decide|bv_decide|implemented_by|unsafe)\b|^\s*axiom\s|maxHeartbeats\s+0\b", re.M
)

sys.path.insert(0, os.path.join(REPO, "src"))
os.environ.setdefault("EMBIT_VERIF", "1")


def strip_lean_comments(src):
    # remove nested /- -/ block comments and -- line comments
    out = []
    i = 0
    depth = 0
    n = len(src)
    while i < n:
        if src.startswith("/-", i):
            depth += 1
            i += 2
        elif depth and src.startswith("-/", i):
            depth -= 1
            i += 2
        elif depth:
            i += 1
        elif src.startswith("--", i):
            j = src.find("\n", i)
            i = n if j < 0 else j
        else:
            out.append(src[i])
            i += 1
    return "".join(out)


def lean_imports(path):
    res = []
    for line in open(path):
        m = re.match(r"\s*(?:public\s+)?import\s+(\S+)", line)
        if m:
            res.append(m.group(1))
    return res


def module_path(mod):
    return os.path.join(LEAN, *mod.split(".")) + ".lean"


def transitive_modules(mod):
    seen = []
    stack = [mod]
    while stack:
        m = stack.pop()
        if m in seen or not m.startswith("EmbitModel"):
            continue
        p = module_path(m)
        if not os.path.exists(p):
            continue
        seen.append(m)
        stack.extend(lean_imports(p))
    return seen


class BuildResult:
    def __init__(self, ok, log, failed):
        self.ok = ok
        self.log = log
        self.failed = failed  # module names that failed to build


def lake_build(targets=()):
    """`lake build` serialised across concurrently running checks."""
    os.makedirs(os.path.join(LEAN, ".lake"), exist_ok=True)
    lock = open(os.path.join(LEAN, ".lake", "verif.lock"), "w")
    fcntl.flock(lock, fcntl.LOCK_EX)
    try:
        p = subprocess.run(["lake", "build", *targets], cwd=LEAN, capture_output=True, text=True)
    finally:
        fcntl.flock(lock, fcntl.LOCK_UN)
    log = p.stdout + p.stderr
    failed = re.findall(r"^✖ \[\d+/\d+\] Building (\S+)", log, re.M)
    failed += re.findall(r"^- (EmbitModel\S*)", log, re.M)
    return BuildResult(p.returncode == 0, log, sorted(set(failed)))


def theorem_names(mod):
    """Names of theorems declared in a Props module (namespace-qualified)."""
    src = strip_lean_comments(open(module_path(mod)).read())
    ns = re.search(r"^namespace\s+(\S+)", src, re.M)
    prefix = ns.group(1) + "." if ns else ""
    return [prefix + n for n in re.findall(r"^theorem\s+(\S+)", src, re.M)]


LOCK = os.path.join(LEAN, "theorems.lock.json")


def theorem_statements(mod):
    """{qualified theorem name: sha256 of its statement (text from `theorem` to the first `:=`, whitespace-normalised)}.
    The lock pins what each property check counts as its obligations: deleting or restating a theorem does not go
    unnoticed (harness/mklock.py rewrites the lock deliberately)."""
    src = strip_lean_comments(open(module_path(mod)).read())
    ns = re.search(r"^namespace\s+(\S+)", src, re.M)
    prefix = ns.group(1) + "." if ns else ""
    out = {}
    for m in re.finditer(r"^theorem\s+(\S+)(.*?):=", src, re.M | re.S):
        out[prefix + m.group(1)] = hashlib.sha256(" ".join(m.group(2).split()).encode()).hexdigest()[:16]
    return out


def lock_diff(mods, current=None):
    """differences between the Props modules and the committed lock. `current[mod]` = {theorem: hash of the ELABORATED
    statement as printed by `#check`} (from audit()); the hash covers the whole type, not a prefix of the source text"""
    try:
        lock = json.load(open(LOCK))
    except Exception:
        return ["theorems.lock.json is missing or unreadable"]
    out = []
    for mod in mods:
        if current is not None and mod in current:
            cur = current[mod]
        else:
            cur = audit(mod)["statements"] if os.path.exists(module_path(mod)) else {}
        want = lock.get(mod)
        if want is None:
            out.append("%s is not in theorems.lock.json" % mod)
            continue
        for n in want:
            if n not in cur:
                out.append("%s: theorem missing" % n)
            elif cur[n] != want[n]:
                out.append("%s: statement differs from the locked one" % n)
        for n in cur:
            if n not in want:
                out.append("%s: not in the lock" % n)
    return out


def audit(mod):
    """Returns dict: theorems -> axiom list, forbidden token hits (file, token)."""
    names = theorem_names(mod)
    hits = []
    for m in transitive_modules(mod):
        src = strip_lean_comments(open(module_path(m)).read())
        for h in FORBIDDEN.finditer(src):
            hits.append((m, h.group(0).strip()))
    adir = os.path.join(LEAN, ".lake", "audit")
    os.makedirs(adir, exist_ok=True)
    f = os.path.join(adir, mod.replace(".", "_") + ".lean")
    with open(f, "w") as fh:
        fh.write("import %s\nset_option pp.deepTerms true\nset_option pp.maxSteps 1000000\n" % mod)
        for n in names:
            fh.write("#print axioms %s\n" % n)
        fh.write("#eval IO.println \"=====STATEMENTS=====\"\n")
        for n in names:
            fh.write("#eval IO.println \"=====%s\"\n#check @%s\n" % (n, n))
    p = subprocess.run(["lake", "env", "lean", f], cwd=LEAN, capture_output=True, text=True)
    out = p.stdout + p.stderr
    statements = {}
    if "=====STATEMENTS=====" in out:
        for chunk in out.split("=====STATEMENTS=====", 1)[1].split("=====")[1:]:
            name, _, body = chunk.partition("\n")
            # the elaborated statement as Lean prints it (`@name : type`), whitespace-normalised
            statements[name.strip()] = hashlib.sha256(" ".join(body.split()).encode()).hexdigest()[:16]
        out = out.split("=====STATEMENTS=====", 1)[0]
    axioms = {}
    for n in names:
        m = re.search(r"'%s' depends on axioms: \[([^\]]*)\]" % re.escape(n), out)
        if m:
            axioms[n] = [a.strip() for a in m.group(1).replace("\n", " ").split(",") if a.strip()]
        elif re.search(r"'%s' does not depend on any axioms" % re.escape(n), out):
            axioms[n] = []
        else:
            axioms[n] = None  # not found: theorem missing / file failed
    return {"theorems": names, "axioms": axioms, "forbidden": hits, "ok": p.returncode == 0, "log": out,
            "statements": statements}


def run_driver(lines, timeout=3600):
    if not lines:
        return []
    data = ("\n".join(lines) + "\n").encode()
    p = subprocess.run([DRIVER], input=data, capture_output=True, timeout=timeout)
    if p.returncode != 0:
        raise RuntimeError("driver failed: rc=%s %s" % (p.returncode, p.stderr.decode()[-2000:]))
    out = p.stdout.decode().split("\n")
    if out and out[-1] == "":
        out.pop()
    if len(out) != len(lines):
        raise RuntimeError("driver answered %d lines for %d requests" % (len(out), len(lines)))
    return out


def hx(b):
    return b.hex() if len(b) else "-"


def load_known():
    p = os.path.join(VERIF, "known_findings.json")
    if not os.path.exists(p):
        return []
    return json.load(open(p)).get("findings", [])


class Check:
    """One run of one property's check."""

    def __init__(self, prop, props_modules, tier, seed, design_ref=""):
        self.prop = prop
        self.props_modules = props_modules if isinstance(props_modules, (list, tuple)) else [props_modules]
        self.tier = tier
        self.seed = seed
        self.rng = random.Random(seed * 1000003 + int(prop[1:]))
        self.t0 = time.time()
        self.evaluations = 0
        self.distinct = set()
        self.samples = []
        self.dist = {}
        self.violations = []  # (what, replay dict)
        self.known_hit = {}  # finding id -> count
        self.broken = []  # broken obligations / correspondences (name, detail)
        self.pending = []  # queued driver comparisons
        self.traces = 0
        self.audit_info = None
        self.build = None
        self.extra = {}
        self.assumptions = []
        self.rule = ""
        self.known = [f for f in load_known() if f.get("property") == prop and f.get("status") == "known"]
        self.classifiers = {}
        self.unproved_goals = []

    # ---------- build / audit
    def build_and_audit(self):
        self.build = lake_build()
        deps = set()
        for m in self.props_modules:
            deps.update(transitive_modules(m))
        relevant_fail = [m for m in self.build.failed if m in deps or m in ("Driver", "driver")]
        if not self.build.ok and not relevant_fail and not os.path.exists(DRIVER):
            relevant_fail = self.build.failed or ["<build>"]
        self.driver_ok = os.path.exists(DRIVER) and not any(
            m in self.build.failed for m in transitive_modules("Driver") + ["Driver"]
        )
        obligations = []
        discharged = 0
        detail = {}
        for m in self.props_modules:
            if not os.path.exists(module_path(m)):
                self.broken.append(("missing-module", m))
                continue
            a = audit(m)
            self._statements = getattr(self, "_statements", {})
            self._statements[m] = a["statements"]
            for n in a["theorems"]:
                obligations.append(n)
                ax = a["axioms"].get(n)
                detail[n] = ax
                if ax is not None and set(ax) <= ALLOWED_AXIOMS:
                    discharged += 1
                else:
                    self.broken.append(("theorem", "%s (axioms: %s)" % (n, ax)))
            for (mod, tokn) in a["forbidden"]:
                self.broken.append(("forbidden-token", "%s in %s" % (tokn, mod)))
            goals = re.findall(r"--\s*GOAL \(not proved\):\s*(.*)", open(module_path(m)).read())
            self.unproved_goals += goals
        for m in relevant_fail:
            self.broken.append(("build", m))
        for d in lock_diff(self.props_modules, getattr(self, "_statements", None)):
            self.broken.append(("theorem-lock", d))
        if self.tier == "thorough" and not self.broken:
            # the toolchain's independent re-checker replays the compiled property modules against the kernel
            p = subprocess.run(["lake", "env", "leanchecker"] + list(self.props_modules), cwd=LEAN, capture_output=True, text=True)
            self.extra["leanchecker"] = {"modules": list(self.props_modules), "exit": p.returncode,
                                         "output": (p.stdout + p.stderr)[-400:]}
            if p.returncode != 0:
                self.broken.append(("leanchecker", (p.stdout + p.stderr)[-300:]))
        self.audit_info = {"obligations": obligations, "discharged": discharged, "axioms": detail}
        return not self.broken

    # ---------- bookkeeping
    def count(self, key, nontrivial=True):
        self.evaluations += 1
        if nontrivial:
            self.distinct.add(hashlib.sha1(repr(key).encode()).digest()[:8])

    def tally(self, name, k=1):
        self.dist[name] = self.dist.get(name, 0) + k

    def sample(self, obj, limit=6):
        if len(self.samples) < limit:
            self.samples.append(obj)

    # ---------- comparisons against the Lean model / spec
    def expect(self, line, impl, info, proven=True, op=None, canon=None):
        """Queue: the driver's answer to `line` must equal `impl` (a string).
        proven=True: the model op is proved equal to the spec, so a difference is a failing input of the
        property itself. proven=False: a difference only breaks the correspondence."""
        self.pending.append((line, impl, info, proven, op or line.split(" ", 1)[0], canon))

    def flush(self):
        if not self.pending:
            return
        pend, self.pending = self.pending, []
        if not self.driver_ok:
            return
        outs = run_driver([p[0] for p in pend])
        for (line, impl, info, proven, op, canon), out in zip(pend, outs):
            self.traces += 1
            if canon:
                out = canon(out)
            if out != impl:
                self.mismatch(op, line, impl, out, info, proven)

    def mismatch(self, op, line, impl, model, info, proven):
        rec = {"property": self.prop, "op": op, "request": line[:100000], "impl": impl[:100000],
               "model": model[:100000], "info": info, "seed": self.seed}
        fid = self.classify(rec, mismatch=True)
        if fid:
            self.known_hit[fid] = self.known_hit.get(fid, 0) + 1
            return
        if proven:
            self.violations.append(("impl differs from the proved model on op %s" % op, rec))
        else:
            self.broken.append(("correspondence", "%s: %s" % (op, json.dumps(rec)[:400])))
            self.extra.setdefault("first_disagreements", []).append(rec)

    def fail(self, what, rec):
        """The property predicate itself failed on the implementation for a concrete input."""
        rec = dict(rec)
        rec.setdefault("property", self.prop)
        rec.setdefault("seed", self.seed)
        fid = self.classify(rec)
        if fid:
            self.known_hit[fid] = self.known_hit.get(fid, 0) + 1
            return
        self.violations.append((what, rec))

    def classify(self, rec, mismatch=False):
        for f in self.known:
            # a finding recorded as "the model follows the defective code" can only show as a failed property
            # predicate, never as a disagreement between implementation and model
            if mismatch and f.get("requires_impl_equals_model"):
                continue
            c = self.classifiers.get(f.get("classifier"))
            if c and c(rec):
                return f["id"]
        return None

    # ---------- verdict
    def finish(self, level="proof", search=None):
        self.flush()
        # a broken proof obligation or correspondence is not yet a violation: search for a failing input
        nofail = False
        if self.broken and not self.violations:
            if search:
                search(self)
                self.flush()
            if not self.violations:
                nofail = True
        os.makedirs(os.path.join(VERIF, "replays"), exist_ok=True)
        os.makedirs(os.path.join(VERIF, "evidence"), exist_ok=True)
        lines = []
        for fid, n in sorted(self.known_hit.items()):
            f = [k for k in self.known if k["id"] == fid][0]
            lines.append("KNOWN-FINDING: property=%s %s: %s (%d cases this run)" % (self.prop, fid, f["what"], n))
        rc = 0
        if self.violations:
            what, rec = self.violations[0]
            path = os.path.join("replays", "%s-%s-%d.json" % (self.prop, self.tier, self.seed))
            rec = dict(rec)
            rec["what"] = what
            rec["broken_obligations"] = [list(b) for b in self.broken][:20]
            rec["other_violations"] = len(self.violations) - 1
            json.dump(rec, open(os.path.join(VERIF, path), "w"), indent=1, default=str)
            lines.append("VIOLATION property=%s replay=%s" % (self.prop, path))
            rc = 1
        elif nofail:
            path = os.path.join("replays", "%s-%s-%d-broken.json" % (self.prop, self.tier, self.seed))
            json.dump({"property": self.prop, "seed": self.seed,
                       "broken": [list(b) for b in self.broken][:50],
                       "note": "a theorem, build step or correspondence no longer checks; the failing-input "
                               "search on the implementation found no input on which the property fails",
                       "build_log_tail": (self.build.log[-3000:] if self.build else "")},
                      open(os.path.join(VERIF, path), "w"), indent=1, default=str)
            lines.append("VIOLATION property=%s replay=%s no-failing-input-found" % (self.prop, path))
            rc = 1
        ai = self.audit_info or {"obligations": [], "discharged": 0, "axioms": {}}
        cov = {
            "obligations": len(ai["obligations"]),
            "discharged": ai["discharged"],
            "checker_cmd": "cd lean && lake build && lake env lean .lake/audit/<Props module>.lean  (#print axioms per theorem; "
                           "source scan for sorry/admit/axiom/native_decide/bv_decide/implemented_by/unsafe)",
            "trusted_base": ["Lean 4.33 kernel", "axioms ⊆ {propext, Classical.choice, Quot.sound}",
                             "harness/ (correspondence generators, canonicalisers)",
                             "CPython, hashlib, libsecp256k1 (modelled, not verified)"],
            "theorems": ai["axioms"],
            "unproved_goals": self.unproved_goals,
            "evaluations": self.evaluations,
            "distinct_nontrivial": len(self.distinct),
            "rule": self.rule,
            "samples": self.samples,
            "traces_validated_against_impl": self.traces,
            "distribution": self.dist,
            "known_findings_hit": self.known_hit,
            "broken": [list(b) for b in self.broken][:20],
        }
        cov.update(self.extra)
        ev = {"property_id": self.prop, "tier": self.tier, "seed": self.seed, "level": level,
              "coverage": cov, "assumptions": self.assumptions, "wall_s": round(time.time() - self.t0, 2),
              "violations": len(self.violations) + (1 if nofail else 0)}
        json.dump(ev, open(os.path.join(VERIF, "evidence", self.prop + ".json"), "w"), indent=1, default=str)
        for l in lines:
            print(l)
        print("%s tier=%s seed=%d: theorems %d/%d, %d evaluations (%d distinct non-trivial), %d model traces, "
              "%d violations, %.1fs" % (self.prop, self.tier, self.seed, ai["discharged"], len(ai["obligations"]),
                                        self.evaluations, len(self.distinct), self.traces,
                                        len(self.violations) + (1 if nofail else 0), time.time() - self.t0))
        return rc


def summarize_violations(check, keyf):
    cnt = {}
    for what, rec in check.violations:
        k = keyf(rec)
        cnt[k] = cnt.get(k, 0) + 1
    return cnt
