import json, sys
def witness(q, f):
    for a in range(2, 1000):
        if pow(a, q-1, q) != 1: continue
        if all(pow(a, (q-1)//r, q) != 1 for r in f): return a
    raise Exception("no witness")
def gen(treefile, out):
    tree={int(k):{int(a):b for a,b in v.items()} for k,v in json.load(open(treefile)).items()}
    lines=[]
    for q in sorted(tree):
        f=tree[q]
        a=witness(q,f)
        fs=", ".join("(%d, %d)"%(r,e) for r,e in sorted(f.items()))
        lines.append("theorem prime_%d : Nat.Prime %d := by" % (q,q))
        lines.append("  apply pratt %d %d [%s] (by norm_num)" % (q,a,fs))
        lines.append("  · intro qe h")
        lines.append("    simp only [List.mem_cons, List.not_mem_nil, or_false] at h")
        pat=" | ".join("rfl" for _ in f)
        lines.append("    rcases h with %s" % pat)
        for r in sorted(f):
            if r in tree: lines.append("    · exact prime_%d" % r)
            else: lines.append("    · norm_num")
        lines.append("  · decide +kernel")
        lines.append("  · decide +kernel")
        lines.append("  · decide +kernel")
        lines.append("")
    return lines
if __name__=="__main__":
    print("\n".join(gen(sys.argv[1], None)))
