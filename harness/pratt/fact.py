import random, math, sys, time, json
sys.setrecursionlimit(10000)
def is_prime(n):
    if n < 2: return False
    small=[2,3,5,7,11,13,17,19,23,29,31,37,41,43,47]
    for q in small:
        if n % q == 0: return n == q
    d=n-1; s=0
    while d%2==0: d//=2; s+=1
    for a in small+[53,59,61,67,71,73,79,83,89,97]:
        x=pow(a,d,n)
        if x in (1,n-1): continue
        for _ in range(s-1):
            x=x*x%n
            if x==n-1: break
        else: return False
    return True
def rho(n, limit):
    if n%2==0: return 2
    for c in range(1,20):
        y=2; m=1000; g=r=q=1
        f=lambda x:(x*x+c)%n
        it=0
        while g==1:
            x=y
            for _ in range(r): y=f(y)
            k=0
            while k<r and g==1:
                ys=y
                for _ in range(min(m,r-k)):
                    y=f(y); q=q*abs(x-y)%n
                g=math.gcd(q,n); k+=m
                it+=m
                if it>limit: g=n; break
            r*=2
        if g==n:
            g=1
            if it>limit: return None
            while g==1:
                ys=f(ys); g=math.gcd(abs(x-ys),n)
        if g!=n: return g
    return None
# simple ECM (Montgomery curves, stage 1 + naive stage 2)
def primes_upto(B):
    sieve=bytearray([1])*(B+1); sieve[0:2]=b'\0\0'
    for i in range(2,int(B**.5)+1):
        if sieve[i]: sieve[i*i::i]=bytearray(len(sieve[i*i::i]))
    return [i for i in range(B+1) if sieve[i]]
def ecm_one(n,B1,B2,sigma,PR):
    # Suyama parametrization
    u=(sigma*sigma-5)%n; v=4*sigma%n
    x=pow(u,3,n); z=pow(v,3,n)
    t=(pow(v-u,3,n)*(3*u+v))%n
    den=(4*x*v)%n
    g=math.gcd(den,n)
    if g!=1: return g if g!=n else None
    a24=(t*pow(den,-1,n)+2)*pow(4,-1,n)%n   # (A+2)/4
    def dbl(P):
        X,Z=P; s=(X+Z)%n; d=(X-Z)%n; s2=s*s%n; d2=d*d%n; t=(s2-d2)%n
        return (s2*d2%n, t*(d2+a24*t)%n)
    def add(P,Q,D):
        X1,Z1=P;X2,Z2=Q;X0,Z0=D
        a=(X1-Z1)*(X2+Z2)%n; b=(X1+Z1)*(X2-Z2)%n
        return (Z0*pow(a+b,2,n)%n, X0*pow(a-b,2,n)%n)
    def mul(k,P):
        if k==1: return P
        R0=P; R1=dbl(P)
        for bit in bin(k)[3:]:
            if bit=='1': R0=add(R0,R1,P); R1=dbl(R1)
            else: R1=add(R0,R1,P); R0=dbl(R0)
        return R0
    P=(x,z)
    for q in PR:
        if q>B1: break
        e=q
        while e*q<=B1: e*=q
        P=mul(e,P)
    g=math.gcd(P[1],n)
    if 1<g<n: return g
    if g==n: return None
    # stage 2 naive
    acc=1; cnt=0
    for q in PR:
        if q<=B1: continue
        if q>B2: break
        Q=mul(q,P); acc=acc*Q[1]%n; cnt+=1
        if cnt%200==0:
            g=math.gcd(acc,n)
            if 1<g<n: return g
            if g==n: return None
    g=math.gcd(acc,n)
    if 1<g<n: return g
    return None
def factor(n, out, deadline):
    if n==1: return True
    if is_prime(n): out[n]=out.get(n,0)+1; return True
    for q in [2,3,5,7,11,13,17,19,23,29,31,37,41,43,47]:
        if n%q==0:
            out[q]=out.get(q,0)+1; return factor(n//q,out,deadline)
    g=rho(n, 400000)
    if g is None:
        for (B1,curves) in [(2000,30),(11000,90),(50000,250),(250000,500),(1000000,1200)]:
            PR=primes_upto(B1*50)
            for i in range(curves):
                if time.time()>deadline: return False
                g=ecm_one(n,B1,B1*50,random.randrange(6,2**62),PR)
                if g: break
            if g: break
    if not g: return False
    return factor(g,out,deadline) and factor(n//g,out,deadline)
if __name__=="__main__":
    N=int(sys.argv[1]); T=float(sys.argv[2])
    out={}
    ok=factor(N,out,time.time()+T)
    print(json.dumps({"n":str(N),"ok":ok,"f":{str(k):v for k,v in out.items()}}))
