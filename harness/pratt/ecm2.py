import sys, math, random, time
from fact import primes_upto
n=int(sys.argv[1]); B1=int(sys.argv[2]); seed=int(sys.argv[3]); T=float(sys.argv[4])
random.seed(seed)
PR=primes_upto(B1)
ks=[]
for q in PR:
    e=q
    while e*q<=B1: e*=q
    ks.append(e)
def run(sigma):
    u=(sigma*sigma-5)%n; v=4*sigma%n
    x=pow(u,3,n); z=pow(v,3,n)
    t=(pow(v-u,3,n)*(3*u+v))%n
    den=(4*x*v)%n
    g=math.gcd(den,n)
    if g!=1: return g if g!=n else None
    a24=(t*pow(den,-1,n)+2)*pow(4,-1,n)%n
    X,Z=x,z
    for k in ks:
        X0,Z0=X,Z
        s=(X+Z)%n; d=(X-Z)%n; s2=s*s%n; d2=d*d%n; tt=(s2-d2)%n
        RX0,RZ0,RX1,RZ1=X0,Z0,s2*d2%n, tt*(d2+a24*tt)%n
        for bit in bin(k)[3:]:
            a=(RX0-RZ0)*(RX1+RZ1)%n; b=(RX0+RZ0)*(RX1-RZ1)%n
            AX=Z0*pow(a+b,2,n)%n; AZ=X0*pow(a-b,2,n)%n
            if bit=='1':
                s=(RX1+RZ1)%n; d=(RX1-RZ1)%n; s2=s*s%n; d2=d*d%n; tt=(s2-d2)%n
                RX1,RZ1=s2*d2%n, tt*(d2+a24*tt)%n
                RX0,RZ0=AX,AZ
            else:
                s=(RX0+RZ0)%n; d=(RX0-RZ0)%n; s2=s*s%n; d2=d*d%n; tt=(s2-d2)%n
                RX0,RZ0=s2*d2%n, tt*(d2+a24*tt)%n
                RX1,RZ1=AX,AZ
        X,Z=RX0,RZ0
    g=math.gcd(Z,n)
    if 1<g<n: return g
    return None
t0=time.time(); c=0
while time.time()-t0<T:
    g=run(random.randrange(6,2**62)); c+=1
    if g:
        print("FOUND",g,n//g,"curves",c,flush=True); break
else:
    print("none after",c,"curves",flush=True)
