"""C08X — the mechanism behind the excluded region of py_eq_contract_ecdsa_sign_recoverable_partial, on the real code.

py_secp256k1.ecdsa_sign_recoverable searches the recovery id with `for i in range(4): ecdsa_recover(sig + bytes([i]), msg)`.
For a signature whose nonce point has x(R) >= n the right id is 2 or 3, but id 0 is tried first with the abscissa
r = x(R) - n, which in general is not on the curve: ECPubKey.set fails and the exception leaves the loop, while
libsecp256k1 answers id 2/3. Such a signature cannot be produced by signing (the nonce would have to be the discrete
logarithm of a chosen point), so this script takes a valid signature with x(R) = n + 7 — valid for the key libsecp256k1
recovers from it — and stubs the two secret-dependent inputs of the search (ecdsa_sign, ec_pubkey_create).
NOTE (round 6): the search loop was a genuine defect (C08-KF2) and is repaired by fixes/c08-signrec.diff (the id is now
computed from the nonce point, there is no loop any more). On a tree WITH the fix the last line prints a signature of the stub
key instead of raising, and py.ecdsa_recover(sig64 + b"\x00", z) raises ValueError (it raised AttributeError). On a tree
without it (e.g. `git stash` / the parent of the fix commit) the script reproduces the AttributeError leaving the loop.
Run: EMBIT_REPO=<repo worktree> /venv/bin/python harness/demo_c08x_recid_search.py
"""
import sys
import os
sys.path.insert(0, os.path.join(os.environ.get("EMBIT_REPO", "/repo"), "src"))
from embit.util import py_secp256k1 as py, ctypes_secp256k1 as ct
from embit.util import key as _key
N = _key.SECP256K1_ORDER; P = _key.SECP256K1_FIELD_SIZE
def on_curve_x(x): return pow((pow(x,3,P)+7) % P, (P-1)//2, P) == 1
# find j: n + j on the curve (x < p), j itself not an abscissa
j = 1
while not (N + j < P and on_curve_x(N + j) and not on_curve_x(j)): j += 1
print("j =", j)
r, s, z = j, 5, (7).to_bytes(32, "big")
sig64 = r.to_bytes(32, "little") + s.to_bytes(32, "little")
Q = ct.ecdsa_recover(sig64 + b"\x02", z)          # libsecp256k1: the key for which (r, s) is valid with recid 2
print("libsecp recovers with id 2:", Q.hex()[:32], "...")
print("py recovers with id 2 the same key:", py.ecdsa_recover(sig64 + b"\x02", z) == Q)
print("libsecp verifies (r,s) under it:", ct.ecdsa_verify(sig64, z, Q))
# py's search loop on this signature: stub the two inputs that need the (unknown) secret
orig = (py.ecdsa_sign, py.ec_pubkey_create)
py.ecdsa_sign = lambda msg, secret, *a, **k: sig64
py.ec_pubkey_create = lambda secret, *a, **k: Q
try:
    print("py search:", py.ecdsa_sign_recoverable(z, b"\x01" * 32).hex())
except Exception as e:
    print("py search raises:", type(e).__name__, e)
py.ecdsa_sign, py.ec_pubkey_create = orig
