"""Regenerates seeded/SUMMARY.md from seeded/*/meta.json and result.json."""
import glob
import json
import os

VERIF = os.path.dirname(os.path.dirname(os.path.abspath(__file__)))
rows = []
for d in sorted(glob.glob(os.path.join(VERIF, "seeded", "*"))):
    if not os.path.isdir(d):
        continue
    m = json.load(open(os.path.join(d, "meta.json")))
    r = json.load(open(os.path.join(d, "result.json"))) if os.path.exists(os.path.join(d, "result.json")) else {"runs": [], "detected": None}
    how = []
    for x in r["runs"]:
        if x["exit"] == 1:
            w = (x.get("replay") or {}).get("what") or ""
            nf = any("no-failing-input-found" in l for l in x["lines"])
            how.append("%s: %s%s" % (x["property"], "no-failing-input-found; " if nf else "", w[:110]))
    rows.append("| %s | %s | %s | %s | %s | %s |" % (m["id"], ", ".join(m["files"]), m["needs"][:160].replace("|", "/"),
                "yes" if m.get("confirmed") else "NO", "yes" if r["detected"] else "no", "; ".join(how)[:260].replace("|", "/") or "-"))
out = ["# Seeded changes (independent sub-agents; property text + scratch worktree only)", "",
       "Each change was confirmed in a scratch worktree (patch applies to /repo HEAD, 88 tests still pass, demo exits 0 without and",
       "non-zero with the change) and then run through the registered quick check of its property (`harness/seeded.py`).", "",
       "| id | files | needs | confirmed | detected | how (replay) |", "|---|---|---|---|---|---|"] + rows
open(os.path.join(VERIF, "seeded", "SUMMARY.md"), "w").write("\n".join(out) + "\n")
print(len(rows), "rows;", sum(1 for r in rows if "| yes | yes |" in r), "detected")
