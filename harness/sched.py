"""Deterministic cooperative scheduler for 2–3 REAL threads (C20).

Exactly one thread runs at a time (per-thread semaphores). A thread is preempted only at *scheduling points*: `line`
events (sys.settrace) inside the traced files — embit's binding module and its immediate callers — and inside the
traced code objects (the operation runner). `embit.util.ctypes_secp256k1._lock` is replaced by a cooperative lock that
hands control back to the scheduler instead of blocking, `_secp` by a proxy that logs every native call (symbol, whether
the calling thread holds the lock) and forwards it to the real library.

Schedule = list of preemptions `(k, to)`: when the k-th scheduling point (counted over all threads from 0) is reached,
the running thread yields to thread `to` (if it can run, else to the next runnable thread). Without a preemption a
thread runs until it finishes or blocks on the lock; then the lowest-numbered runnable thread continues. Thread 0
starts. The same (programs, preemptions) always give the same interleaving.

The log `events` is the run abstracted to the steps of lean/EmbitModel/Model/Lock.lean:
  (tid, "acq") (tid, "rel") (tid, "enter", sym, held) (tid, "exit", sym, held) (tid, "read", op_index)."""
import sys
import threading
import time


class Deadlock(Exception):
    pass


class SchedulerError(Exception):
    pass


class CoopLock:
    def __init__(self, sched):
        self.sched = sched
        self.owner = None       # tid, or "main" for threads the scheduler does not control

    def acquire(self, blocking=True, timeout=-1):
        s = self.sched
        tid = s.tid()
        if tid is None:
            if self.owner is not None:
                raise SchedulerError("uncontrolled thread found the lock held")
            self.owner = "main"
            return True
        while self.owner is not None:
            if self.owner == tid:
                s.emit(tid, "self-deadlock")
                raise Deadlock("thread %d acquires the lock it already holds" % tid)
            s.block(tid)
        self.owner = tid
        s.emit(tid, "acq")
        return True

    def release(self):
        s = self.sched
        if self.owner is None:
            raise RuntimeError("release unlocked lock")
        tid = s.tid()
        self.owner = None
        if tid is not None:
            s.emit(tid, "rel")
            s.wake_all()

    def locked(self):
        return self.owner is not None

    def __enter__(self):
        self.acquire()
        return True

    def __exit__(self, *a):
        self.release()
        return False


class _Fn:
    def __init__(self, name, real, sched, lock):
        object.__setattr__(self, "_n", name)
        object.__setattr__(self, "_real", real)
        object.__setattr__(self, "_s", sched)
        object.__setattr__(self, "_l", lock)

    def __getattr__(self, k):
        return getattr(self._real, k)

    def __setattr__(self, k, v):
        setattr(self._real, k, v)

    def __call__(self, *args):
        s = self._s
        tid = s.tid()
        held = tid is not None and self._l.owner == tid
        if tid is not None:
            s.emit(tid, "enter", self._n, held)
        try:
            return self._real(*args)
        finally:
            if tid is not None:
                s.emit(tid, "exit", self._n, held)


class LibProxy:
    def __init__(self, real, sched, lock):
        object.__setattr__(self, "_real", real)
        object.__setattr__(self, "_s", sched)
        object.__setattr__(self, "_l", lock)

    def __getattr__(self, k):
        v = getattr(self._real, k)
        if callable(v) and not isinstance(v, type) and not k.startswith("_"):
            return _Fn(k, v, self._s, self._l)
        return v

    def __setattr__(self, k, v):
        setattr(self._real, k, v)


class Scheduler:
    def __init__(self, funcs, preempts=(), files=(), codes=(), timeout=60.0, max_points=None):
        self.funcs = list(funcs)
        self.n = len(self.funcs)
        self.preempts = sorted([tuple(p) for p in preempts])
        self.files = set(files)
        self.codes = set(codes)
        self.timeout = timeout
        self.sems = [threading.Semaphore(0) for _ in range(self.n)]
        self.state = ["ready"] * self.n
        self.counter = 0
        self.points = [0] * self.n        # scheduling points seen per thread
        self.events = []
        self.results = [None] * self.n
        self.errors = [None] * self.n
        self.idents = {}
        self.done = threading.Event()
        self.failure = None
        self.switches = []                # (k, from, to) actually performed
        self.max_points = max_points

    # ---- identity
    def tid(self):
        return self.idents.get(threading.get_ident())

    def emit(self, tid, *e):
        self.events.append((tid,) + e)

    # ---- hand-over
    def _next_ready(self, after, exclude=None):
        for d in range(self.n):
            t = (after + d) % self.n
            if t != exclude and self.state[t] == "ready":
                return t
        return None

    def _lowest_ready(self, exclude=None):
        for t in range(self.n):
            if t != exclude and self.state[t] == "ready":
                return t
        return None

    def _hand(self, me, to):
        self.sems[to].release()
        self.sems[me].acquire()

    def point(self, me):
        k = self.counter
        self.counter += 1
        self.points[me] += 1
        if self.max_points is not None and k > self.max_points:
            raise SchedulerError("more than %d scheduling points" % self.max_points)
        while self.preempts and self.preempts[0][0] < k:
            self.preempts.pop(0)
        if self.preempts and self.preempts[0][0] == k:
            to = self.preempts.pop(0)[1]
            target = to if (to != me and 0 <= to < self.n and self.state[to] == "ready") else \
                self._next_ready(to if 0 <= to < self.n else 0, exclude=me)
            if target is not None:
                self.switches.append((k, me, target))
                self._hand(me, target)

    def block(self, me):
        """called by the cooperative lock when `me` finds it held"""
        self.state[me] = "blocked"
        self.emit(me, "blocked")
        target = self._lowest_ready(exclude=me)
        if target is None:
            self.state[me] = "ready"
            raise Deadlock("thread %d waits for the lock and no thread can run" % me)
        self._hand(me, target)
        if self.state[me] == "deadlock":
            self.state[me] = "ready"
            raise Deadlock("thread %d waits for a lock nobody will release" % me)

    def wake_all(self):
        for t in range(self.n):
            if self.state[t] == "blocked":
                self.state[t] = "ready"

    def _finish(self, me):
        self.state[me] = "done"
        target = self._lowest_ready()
        if target is not None:
            self.sems[target].release()
            return
        blocked = [t for t in range(self.n) if self.state[t] == "blocked"]
        if blocked:
            # the lock is held by a finished thread: the waiters would hang forever
            t = blocked[0]
            self.state[t] = "deadlock"
            self.sems[t].release()
            return
        self.done.set()

    # ---- tracing
    def _global_trace(self, frame, event, arg):
        co = frame.f_code
        if co.co_filename in self.files or co in self.codes:
            return self._local_trace
        return None

    def _local_trace(self, frame, event, arg):
        if event == "line":
            me = self.tid()
            if me is not None:
                self.point(me)
        return self._local_trace

    def _body(self, me):
        self.sems[me].acquire()
        self.idents[threading.get_ident()] = me
        sys.settrace(self._global_trace)
        try:
            self.results[me] = self.funcs[me]()
        except BaseException as e:   # noqa
            self.errors[me] = e
        finally:
            sys.settrace(None)
            try:
                self._finish(me)
            except BaseException as e:   # noqa
                self.failure = e
                self.done.set()

    def run(self, first=0):
        ths = [threading.Thread(target=self._body, args=(t,), daemon=True) for t in range(self.n)]
        for t in ths:
            t.start()
        self.sems[first].release()
        if not self.done.wait(self.timeout):
            raise SchedulerError("controlled run did not finish within %.0f s (states %s)" % (self.timeout, self.state))
        for t in ths:
            t.join(5.0)
        if self.failure is not None:
            raise SchedulerError("scheduler failure: %r" % (self.failure,))
        return self


class Controlled:
    """context manager: install the cooperative lock and the logging proxy into the binding module"""

    def __init__(self, B, sched):
        self.B = B
        self.sched = sched

    def __enter__(self):
        B = self.B
        self.saved = (B._lock, B._secp)
        self.lock = CoopLock(self.sched)
        B._lock = self.lock
        B._secp = LibProxy(self.saved[1], self.sched, self.lock)
        return self

    def __exit__(self, *a):
        self.B._lock, self.B._secp = self.saved
        return False


def caller_files(B):
    """files of the binding module and of every loaded embit module that refers to it (`secp256k1` global bound to the
    binding module or to the facade embit.util.secp256k1) — the 'immediate callers'"""
    files = {B.__file__}
    facade = sys.modules.get("embit.util.secp256k1")
    for name, m in list(sys.modules.items()):
        if not name.startswith("embit") or m is None:
            continue
        for v in vars(m).values():
            if v is B or (facade is not None and v is facade):
                f = getattr(m, "__file__", None)
                if f:
                    files.add(f)
                break
    return files


def run_controlled(B, funcs, preempts, files, codes, timeout=60.0):
    s = Scheduler(funcs, preempts, files, codes, timeout)
    with Controlled(B, s):
        s.run()
    return s
