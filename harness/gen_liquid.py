"""Seeded generators for C18 (Liquid): Elements transactions, wire mutations, PSET byte builders (independent of
embit's PSET serialiser), recorded PSETs of the repo tests, structures for the blinding data flow."""
import base64
import io
import os
import re

from core import hx, REPO
import gen
from gen import rbytes, cs, kv

from embit import compact
from embit.script import Script, Witness
from embit.liquid.transaction import (LTransaction, LTransactionInput, LTransactionOutput, AssetIssuance,
                                      TxInWitness, TxOutWitness, Proof, RangeProof)

ELEMENTS = b"\xfc\x08elements"
PSET = b"\xfc\x04pset"
VALUES = [0, 1, 2, 2**52 - 1, 2**52, 2**63, 2**64 - 1, 546, 10**8]


def on(x):
    return "None" if x is None else str(x)


def ob(x):
    return "None" if x is None else hx(x)


# ---------------------------------------------------------------- recorded material

def recorded_psets():
    src = ""
    for f in ("test_liquid.py", "test_psetview.py"):
        src += open(os.path.join(REPO, "tests", "tests", f)).read()
    return [base64.b64decode(s) for s in sorted(set(re.findall(r'"(cHNldP8[A-Za-z0-9+/=]+)"', src)))]


def recorded_txs():
    src = open(os.path.join(REPO, "tests", "tests", "test_liquid.py")).read()
    res = []
    for h in re.findall(r'"(0[12]000000[0-9a-f]{200,})"', src):
        res.append(bytes.fromhex(h))
    return res


# ---------------------------------------------------------------- transactions

def gen_commit(rng):
    r = rng.random()
    if r < 0.3:
        return None
    if r < 0.6:
        return rng.choice(VALUES) if rng.random() < 0.6 else rng.getrandbits(64)
    pre = rng.choice([8, 9]) if rng.random() < 0.8 else rng.choice([2, 3, 0x0a, 0x0b, 0x7f, 0xff])
    return bytes([pre]) + rbytes(rng, 32)


def gen_stack(rng):
    if rng.random() < 0.5:
        return []
    return [rbytes(rng, rng.choice([0, 1, 2, 33, 72, 75, 76, 253])) for _ in range(rng.randrange(1, 4))]


def gen_lin(rng, witness=True):
    r = rng.random()
    pegin = False
    iss = None
    if r < 0.08:
        vout = 0xFFFFFFFF
    else:
        vout = rng.choice([0, 1, 2, 2**30 - 1, 2**30 - 2, 2**29]) if rng.random() < 0.5 else rng.getrandbits(rng.choice([4, 16, 30]))
        pegin = rng.random() < 0.25
        if rng.random() < 0.35:
            iss = AssetIssuance(rbytes(rng, 32) if rng.random() < 0.7 else bytes(32), rbytes(rng, 32), gen_commit(rng), gen_commit(rng))
        if vout == 2**30 - 1 and pegin and iss is not None:
            pegin = False  # the flagged index would be the null index
    w = None
    if witness and rng.random() < 0.5:
        w = TxInWitness(Proof(rbytes(rng, rng.choice([0, 0, 3, 70]))), Proof(rbytes(rng, rng.choice([0, 0, 2]))),
                        Witness(gen_stack(rng)), Witness(gen_stack(rng)))
    ss = b"" if rng.random() < 0.6 else gen.gen_script(rng)
    return LTransactionInput(rbytes(rng, 32), vout, Script(ss), gen.pick_u32(rng), w, is_pegin=pegin, asset_issuance=iss)


def gen_lout(rng, witness=True):
    r = rng.random()
    if r < 0.45:
        asset = rbytes(rng, 32)
    elif r < 0.5:
        asset = b"\x01" + rbytes(rng, 32)  # constructor strips the prefix
    else:
        pre = rng.choice([0x0a, 0x0b]) if rng.random() < 0.85 else rng.choice([0, 2, 8, 0x7f, 0xff])
        asset = bytes([pre]) + rbytes(rng, 32)
    r = rng.random()
    if r < 0.5:
        value = rng.choice(VALUES) if rng.random() < 0.6 else rng.getrandbits(rng.choice([16, 40, 52, 64]))
    else:
        pre = rng.choice([8, 9]) if rng.random() < 0.85 else rng.choice([0, 2, 0x0a, 0xff])
        value = bytes([pre]) + rbytes(rng, 32)
    r = rng.random()
    if r < 0.5:
        nonce = None
    elif r < 0.53:
        nonce = b""  # written like None
    else:
        pre = rng.choice([2, 3]) if rng.random() < 0.85 else rng.choice([1, 4, 0x0a, 0xff])
        nonce = bytes([pre]) + rbytes(rng, 32)
    spk = b"" if rng.random() < 0.15 else gen.gen_script(rng)
    w = None
    if witness and rng.random() < 0.5:
        w = TxOutWitness(Proof(rbytes(rng, rng.choice([0, 0, 67, 131]))), RangeProof(rbytes(rng, rng.choice([0, 0, 5, 300]))))
    return LTransactionOutput(asset, value, Script(spk), nonce, w)


def gen_ltx(rng, max_in=4, max_out=4):
    witness = rng.random() < 0.6
    nin = rng.randrange(0, max_in + 1) if rng.random() < 0.97 else rng.choice([252, 253])
    nout = rng.randrange(0, max_out + 1)
    small = nin > 10
    vin = [gen_lin(rng, witness and not small) for _ in range(nin)]
    vout = [gen_lout(rng, witness) for _ in range(nout)]
    return LTransaction(version=gen.pick_u32(rng), vin=vin, vout=vout, locktime=gen.pick_u32(rng))


def commit_tok(c):
    if c is None:
        return "N"
    if isinstance(c, int):
        return "E%d" % c
    return "C" + hx(c)


def lin_tokens(i):
    t = [hx(i.txid), str(i.vout), hx(i.script_sig.data), str(i.sequence), "1" if i.is_pegin else "0"]
    if i.asset_issuance is None:
        t.append("0")
    else:
        a = i.asset_issuance
        t += ["1", hx(a.nonce), hx(a.entropy), commit_tok(a.amount_commitment), commit_tok(a.token_commitment)]
    w = i.witness
    t += [hx(w.amount_proof.data), hx(w.token_proof.data), str(len(w.script_witness.items))]
    t += [hx(x) for x in w.script_witness.items]
    t.append(str(len(w.pegin_witness.items)))
    t += [hx(x) for x in w.pegin_witness.items]
    return t


def lout_tokens(o):
    return [hx(o.asset), commit_tok(o.value), ob(o.ecdh_pubkey), hx(o.script_pubkey.data),
            hx(o.witness.surjection_proof.data), hx(o.witness.range_proof.data)]


def ltx_tokens(tx):
    t = [str(tx.version), str(tx.locktime), str(len(tx.vin))]
    for i in tx.vin:
        t += lin_tokens(i)
    t.append(str(len(tx.vout)))
    for o in tx.vout:
        t += lout_tokens(o)
    return " ".join(t)


def ltx_shape(tx):
    return "in%d/out%d/%s%s" % (min(len(tx.vin), 5), min(len(tx.vout), 5), "wit" if tx.has_witness else "nowit",
                                "/iss" if any(i.has_issuance for i in tx.vin) else "")


def ltx_compacts(tx):
    """offsets/width/value of every CompactSize in tx.serialize() (re-walk with embit's own element writers)"""
    b = tx.serialize()
    pos = []
    off = 5
    pos.append((off, len(cs(len(tx.vin))), len(tx.vin)))
    off += len(cs(len(tx.vin)))
    for i in tx.vin:
        s = i.serialize()
        l = len(i.script_sig.data)
        pos.append((off + 36, len(cs(l)), l))
        off += len(s)
    pos.append((off, len(cs(len(tx.vout))), len(tx.vout)))
    off += len(cs(len(tx.vout)))
    for o in tx.vout:
        s = o.serialize()
        l = len(o.script_pubkey.data)
        pos.append((off + len(s) - l - len(cs(l)), len(cs(l)), l))
        off += len(s)
    return b, pos


def ltx_mutations(rng, tx, every_offset=False, budget=30):
    b, pos = ltx_compacts(tx)
    n = len(b)
    if every_offset and n <= 1500:
        offs = range(n)
    else:
        offs = sorted(set([0, 1, 3, 4, 5, 6, n - 1, n - 2, n - 3, n - 4, n - 5] + [rng.randrange(n) for _ in range(budget // 3)]))
    for k in offs:
        if 0 <= k < n:
            yield ("truncate", b[:k])
    for e in (b"\x00", b"\x01\x02", rbytes(rng, 3)):
        yield ("trailing", b + e)
    # flag byte
    for f in (2, 3, 0x80, 0xFF):
        yield ("flag", b[:4] + bytes([f]) + b[5:])
    nowit = LTransaction(tx.version, [LTransactionInput(i.txid, i.vout, i.script_sig, i.sequence, None, i.is_pegin, i.asset_issuance) for i in tx.vin],
                         [LTransactionOutput(o.asset, o.value, o.script_pubkey, o.ecdh_pubkey) for o in tx.vout], tx.locktime).serialize()
    yield ("superfluous-witness", nowit[:4] + b"\x01" + nowit[5:] + b"\x00" * (4 * len(tx.vin) + 2 * len(tx.vout)))
    if tx.has_witness:
        yield ("witness-without-flag", b[:4] + b"\x00" + b[5:])
    ps = pos if len(pos) <= budget // 3 else rng.sample(pos, budget // 3)
    for (p, w, v) in ps:
        for width in (2, 4, 8):
            if width + 1 > w:
                yield ("noncanonical", b[:p] + gen.noncanonical(v, width) + b[p + w:])
    for _ in range(budget // 2):
        k = rng.randrange(n)
        c = bytearray(b)
        c[k] ^= 1 << rng.randrange(8)
        yield ("bitflip", bytes(c))
    for _ in range(budget // 4):
        k = rng.randrange(n)
        c = bytearray(b)
        c[k] = rng.choice([0, 1, 2, 8, 9, 0x0a, 0xFC, 0xFD, 0xFE, 0xFF])
        yield ("byteset", bytes(c))


# ---------------------------------------------------------------- PSET byte builder (independent of embit's writer)

IN_KEYS = {  # field -> (key, int length or None)
    "value": (ELEMENTS + b"\x00", 8), "vbf": (ELEMENTS + b"\x01", None), "asset": (ELEMENTS + b"\x02", None),
    "abf": (ELEMENTS + b"\x03", None), "range_proof": (PSET + b"\x0e", None), "issue_value": (PSET + b"\x00", 8),
    "issue_commitment": (PSET + b"\x01", "commit"), "issue_rangeproof": (PSET + b"\x02", None),
    "token_rangeproof": (PSET + b"\x03", None), "issue_proof": (PSET + b"\x0f", None),
    "token_value": (PSET + b"\x0a", 8), "token_commitment": (PSET + b"\x0b", "commit"),
    "issue_nonce": (PSET + b"\x0c", "raw32"), "issue_entropy": (PSET + b"\x0d", "raw32"), "token_proof": (PSET + b"\x10", None),
}
OUT_KEYS = {  # field -> (v2 key, legacy key or None, int length)
    "asset": (PSET + b"\x02", None, None), "value_commitment": (PSET + b"\x01", ELEMENTS + b"\x00", None),
    "vbf": (ELEMENTS + b"\x01", None, None), "asset_commitment": (PSET + b"\x03", ELEMENTS + b"\x02", None),
    "abf": (ELEMENTS + b"\x03", None, None), "blinding_pubkey": (PSET + b"\x06", ELEMENTS + b"\x06", None),
    "ecdh_pubkey": (PSET + b"\x07", ELEMENTS + b"\x07", None), "range_proof": (PSET + b"\x04", ELEMENTS + b"\x04", None),
    "surjection_proof": (PSET + b"\x05", ELEMENTS + b"\x05", None), "blinder_index": (PSET + b"\x08", None, 4),
    "value_proof": (PSET + b"\x09", None, None), "asset_proof": (PSET + b"\x0a", None, None),
}
OUT_ALIASES = {}
for _f, (_k2, _k0, _l) in OUT_KEYS.items():
    OUT_ALIASES[_k2] = _f
    if _k0 is not None:
        OUT_ALIASES[_k0] = _f


def canon_out_key(k, version):
    """the key LOutputScope.write_to uses for the field that key k denotes"""
    f = OUT_ALIASES.get(k)
    if f is None:
        return k
    k2, k0, _ = OUT_KEYS[f]
    return k2 if (version == 2 or k0 is None) else k0


def malformed_issuance_value(k, v):
    """the region of finding C18-KF1 (fixed by fixes/c18-kf1.diff): an input-scope commitment (`pset 01` / `pset 0b`) that
    is not 33 bytes with prefix 08 / 09, a nonce / entropy (`pset 0c` / `pset 0d`) that is not 32 bytes"""
    if k in (PSET + b"\x01", PSET + b"\x0b"):
        return len(v) != 33 or v[0] not in (8, 9)
    if k in (PSET + b"\x0c", PSET + b"\x0d"):
        return len(v) != 32
    return False


def field_value(rng, ln):
    if ln == "commit":  # since fix c18-kf1: 33 bytes, prefix 08 / 09; anything else must be refused
        r = rng.random()
        if r < 0.85:
            return bytes([rng.choice([8, 9])]) + rbytes(rng, 32)
        if r < 0.92:
            return bytes([rng.choice([0, 1, 2, 3, 7, 0x0a, 0x0b, 0xff])]) + rbytes(rng, 32)
        return rbytes(rng, rng.choice([0, 1, 4, 32, 34, 67]))
    if ln == "raw32":  # since fix c18-kf1: 32 bytes; anything else must be refused
        if rng.random() < 0.85:
            return rng.choice([b"\x00" * 32, rbytes(rng, 32)])
        return rbytes(rng, rng.choice([0, 1, 31, 33, 67]))
    if ln is not None:
        r = rng.random()
        if r < 0.85:
            v = rng.choice([0, 1, (2**52 - 1) % 2**(8 * ln), 2**(8 * ln) - 1]) if rng.random() < 0.5 else rng.getrandbits(8 * ln)
            return v.to_bytes(ln, "little")
        return rbytes(rng, rng.choice([0, 1, ln - 1, ln + 1]))  # wrong length: must be refused
    r = rng.random()
    if r < 0.12:
        return b""
    return rbytes(rng, rng.choice([1, 4, 32, 33, 67]))


def unknown_liquid_key(rng):
    r = rng.random()
    if r < 0.3:
        return PSET + bytes([rng.choice([0x11, 0x12, 0x20, 0x7f, 0xff])])
    if r < 0.5:
        return ELEMENTS + bytes([rng.choice([0x08, 0x09, 0x20, 0xff])])
    if r < 0.65:
        return PSET  # the bare tag
    if r < 0.8:
        return bytes([rng.choice([0x30, 0xf0])]) + rng.choice([PSET, ELEMENTS]) + rbytes(rng, rng.randrange(0, 3))  # tag inside
    return b"\xfc\x07specter" + bytes([rng.randrange(4)])


def gen_in_pairs(rng, version=2):
    pairs = []
    for f, (k, ln) in IN_KEYS.items():
        # PSETv2 issuance fields make no sense next to a version-0 global transaction (which has no issuance)
        if version != 2 and f in ("issue_value", "issue_commitment"):
            continue
        if rng.random() < 0.3:
            pairs.append((k, field_value(rng, ln)))
    for _ in range(rng.choice([0, 0, 1, 2])):
        pairs.append((unknown_liquid_key(rng), rbytes(rng, rng.randrange(0, 5))))
    r = rng.random()
    if r < 0.08 and pairs:
        k, v = rng.choice(pairs)
        pairs.append((k, rbytes(rng, len(v))))  # duplicate: must be refused
    rng.shuffle(pairs)
    return pairs


def gen_out_pairs(rng, version, seeded):
    pairs = []
    for f, (k2, k0, ln) in OUT_KEYS.items():
        if f == "asset" and (seeded or version != 2):
            continue
        if rng.random() < 0.3:
            k = k2 if (k0 is None or rng.random() < (0.85 if version == 2 else 0.15)) else k0
            pairs.append((k, field_value(rng, ln)))
    for _ in range(rng.choice([0, 0, 1, 2])):
        pairs.append((unknown_liquid_key(rng), rbytes(rng, rng.randrange(0, 5))))
    r = rng.random()
    if r < 0.06 and pairs:
        k, v = rng.choice(pairs)
        f = OUT_ALIASES.get(k)
        if f is not None and OUT_KEYS[f][1] is not None and rng.random() < 0.5:
            k2, k0, _ = OUT_KEYS[f]
            k = k0 if k == k2 else k2  # the other spelling of the same field: must be refused
        pairs.append((k, rbytes(rng, len(v))))
    if r > 0.97 and seeded:
        pairs.append((PSET + b"\x02", rbytes(rng, 32)))  # asset key on a seeded scope
    rng.shuffle(pairs)
    return pairs


def build_pset(tx, version, in_maps, out_maps, global_extra=()):
    """PSET bytes for an LTransaction `tx` used as a field container (version 2: explicit int values only)."""
    b = b"pset\xff"
    if version == 2:
        b += kv(b"\x02", tx.version.to_bytes(4, "little")) + kv(b"\x03", tx.locktime.to_bytes(4, "little"))
        b += kv(b"\x04", cs(len(tx.vin))) + kv(b"\x05", cs(len(tx.vout))) + kv(b"\xfb", (2).to_bytes(4, "little"))
    else:
        b += kv(b"\x00", tx.serialize())
    for (k, v) in global_extra:
        b += kv(k, v)
    b += b"\x00"
    for i, m in zip(tx.vin, in_maps):
        for (k, v) in m:
            b += kv(k, v)
        if version == 2:
            b += kv(b"\x0e", i.txid[::-1]) + kv(b"\x0f", i.vout.to_bytes(4, "little")) + kv(b"\x10", i.sequence.to_bytes(4, "little"))
        b += b"\x00"
    for o, m in zip(tx.vout, out_maps):
        for (k, v) in m:
            b += kv(k, v)
        if version == 2:
            if isinstance(o.value, int):
                b += kv(b"\x03", o.value.to_bytes(8, "little"))
            b += kv(b"\x04", o.script_pubkey.data)
        b += b"\x00"
    return b


def gen_pset_bytes(rng):
    """returns dict(bytes, version, tx, in_maps, out_maps, v0_flags)"""
    version = 2 if rng.random() < 0.65 else 0
    nin = rng.randrange(0, 4)
    nout = rng.randrange(0, 4)
    vin = []
    for _ in range(nin):
        vout_n = rng.choice([0, 1, 5, 2**30 - 1]) if version == 0 else gen.pick_u32(rng)
        vin.append(LTransactionInput(rbytes(rng, 32), vout_n, Script(b""), rng.choice([0, 1, 0xFFFFFFFD, 0xFFFFFFFF]) if rng.random() < 0.7 else gen.pick_u32(rng)))
    vout = []
    for _ in range(nout):
        spk = b"" if rng.random() < 0.2 else gen.gen_script(rng)
        if version == 0 and rng.random() < 0.25:
            o = LTransactionOutput(bytes([rng.choice([0x0a, 0x0b])]) + rbytes(rng, 32), bytes([rng.choice([8, 9])]) + rbytes(rng, 32),
                                   Script(spk), bytes([rng.choice([2, 3])]) + rbytes(rng, 32) if rng.random() < 0.7 else None)
        else:
            o = LTransactionOutput(rbytes(rng, 32), rng.choice(VALUES[:5]) if rng.random() < 0.6 else rng.getrandbits(52), Script(spk))
        vout.append(o)
    tx = LTransaction(version=rng.choice([0, 1, 2]) if rng.random() < 0.8 else gen.pick_u32(rng), vin=vin, vout=vout,
                      locktime=rng.choice([0, 1, 500000000]))
    in_maps = []
    for i in vin:
        m = gen_in_pairs(rng, version)
        r = rng.random()
        if r < 0.35:
            m.append((b"\x01", gen_lout(rng, False).serialize()))
        elif r < 0.5:
            m.append((b"\x00", gen_ltx(rng, 2, 3).serialize()))
        rng.shuffle(m)
        in_maps.append(m)
    out_maps = [gen_out_pairs(rng, version, version == 0) for _ in vout]
    ge = []
    if rng.random() < 0.3:
        ge.append((rng.choice([b"\xfc\x04pset\x00", b"\xfc\x04pset\x01", b"\xf0\x01", b"\xfc\x08elements\x00"]), rbytes(rng, rng.randrange(0, 5))))
    b = build_pset(tx, version, in_maps, out_maps, ge)
    return {"bytes": b, "version": version, "tx": tx, "in_maps": in_maps, "out_maps": out_maps}


def split_scopes(b):
    """independent splitter: list of scopes, each a list of (key, value)"""
    assert b[:5] == b"pset\xff"
    s = io.BytesIO(b[5:])
    scopes = []
    cur = []

    def rd():
        l = compact.read_from(s)
        d = s.read(l)
        assert len(d) == l
        return d

    n = len(b) - 5
    while s.tell() < n:
        k = rd()
        if len(k) == 0:
            scopes.append(cur)
            cur = []
            continue
        cur.append((k, rd()))
    assert not cur
    return scopes


def pset_mutations(rng, b, budget):
    n = len(b)
    offs = sorted(set([5, 6, n - 1, n - 2] + [rng.randrange(n) for _ in range(budget // 3)]))
    for k in offs:
        if 0 <= k < n:
            yield ("truncate", b[:k])
    yield ("trailing", b + b"\x00")
    yield ("magic", b"psbt\xff" + b[5:])
    for _ in range(budget // 2):
        k = rng.randrange(n)
        c = bytearray(b)
        c[k] ^= 1 << rng.randrange(8)
        yield ("bitflip", bytes(c))
    for _ in range(budget // 6):
        k = rng.randrange(n)
        c = bytearray(b)
        c[k] = rng.choice([0, 1, 2, 0xFC, 0xFD, 0xFF])
        yield ("byteset", bytes(c))
