"""Runs the registered checks against a seeded change: apply the patch to /repo, run the quick commands of the given
properties, undo the patch. Usage: seeded.py <seeded dir> [C01 C03 …] [--tier quick|thorough] [--seeds 0,1]
Writes <seeded dir>/result.json. Never commits anything in /repo."""
import json
import os
import subprocess
import sys
import time

VERIF = os.path.dirname(os.path.dirname(os.path.abspath(__file__)))
REPO = "/repo"


def sh(cmd, **kw):
    return subprocess.run(cmd, shell=True, capture_output=True, text=True, **kw)


def main():
    d = os.path.abspath(sys.argv[1])
    args = sys.argv[2:]
    tier = "quick"
    seeds = [0]
    props = []
    i = 0
    while i < len(args):
        if args[i] == "--tier":
            tier = args[i + 1]; i += 2
        elif args[i] == "--seeds":
            seeds = [int(x) for x in args[i + 1].split(",")]; i += 2
        else:
            props.append(args[i]); i += 1
    meta = json.load(open(os.path.join(d, "meta.json")))
    props = props or [meta["property"]]
    patch = os.path.join(d, "patch.diff")
    assert sh("git -C %s status --porcelain" % REPO).stdout.strip() == "", "/repo is not clean"
    r = sh("git -C %s apply %s" % (REPO, patch))
    if r.returncode != 0:
        print("patch does not apply:", r.stderr)
        sys.exit(2)
    res = {"tier": tier, "runs": []}
    # evidence and replay files describe the UNCHANGED tree: keep them out of reach of the runs on the patched tree
    import shutil
    import tempfile
    keep = tempfile.mkdtemp(prefix="seeded-keep-")
    for sub in ("evidence", "replays"):
        if os.path.isdir(os.path.join(VERIF, sub)):
            shutil.copytree(os.path.join(VERIF, sub), os.path.join(keep, sub))
    try:
        for p in props:
            for s in seeds:
                t0 = time.time()
                r = sh("cd %s && VERIF_SEED=%d ./check %s --tier %s" % (VERIF, s, p, tier))
                lines = [l for l in r.stdout.split("\n") if l.startswith("VIOLATION") or l.startswith(p)]
                rep = None
                for l in lines:
                    if l.startswith("VIOLATION") and "replay=" in l:
                        rp = os.path.join(VERIF, l.split("replay=")[1].split()[0])
                        if os.path.exists(rp):
                            j = json.load(open(rp))
                            rep = {"what": j.get("what") or j.get("note"), "keys": [k for k in j][:12]}
                res["runs"].append({"property": p, "seed": s, "exit": r.returncode, "lines": lines[-3:], "replay": rep,
                                    "wall_s": round(time.time() - t0, 1)})
                print(p, s, "exit", r.returncode, "|", " || ".join(lines[-2:])[:300])
    finally:
        sh("git -C %s checkout -- ." % REPO)
        # generated fact files may have been rewritten by the run on the patched tree: restore and rebuild lazily
        sh("cd %s && git checkout -- lean/EmbitModel/Generated" % VERIF)
        for sub in ("evidence", "replays"):
            if os.path.isdir(os.path.join(keep, sub)):
                shutil.rmtree(os.path.join(VERIF, sub), ignore_errors=True)
                shutil.copytree(os.path.join(keep, sub), os.path.join(VERIF, sub))
        shutil.rmtree(keep, ignore_errors=True)
    res["detected"] = any(x["exit"] == 1 for x in res["runs"])
    json.dump(res, open(os.path.join(d, "result.json"), "w"), indent=1)
    print("detected:", res["detected"])


main()
