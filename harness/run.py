import argparse
import importlib
import os
import sys
import traceback

sys.path.insert(0, os.path.dirname(os.path.abspath(__file__)))


def main():
    ap = argparse.ArgumentParser()
    ap.add_argument("prop")
    ap.add_argument("--tier", default=os.environ.get("VERIF_TIER", "quick"))
    ap.add_argument("--seed", type=int, default=int(os.environ.get("VERIF_SEED", "0") or 0))
    ap.add_argument("--replay")
    a = ap.parse_args()
    mod = importlib.import_module("props." + a.prop.lower())
    try:
        if a.replay:
            rc = mod.replay(a.replay)
        else:
            rc = mod.run(a.tier, a.seed)
    except SystemExit:
        raise
    except BaseException:
        traceback.print_exc()
        print("harness error (not a verdict)")
        rc = 2
    sys.exit(rc)


main()
