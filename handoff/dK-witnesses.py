"""Concrete witnesses of the two defects repaired by fixes/fix-taproot-hashtype.diff (audit A4) and
fixes/fix-compress-dup-utxo.diff (audit B3), and of the explicit exclusion A13 (no code change).
Run:  PYTHONPATH=<repo worktree>/src /venv/bin/python handoff/dK-witnesses.py
On the unrepaired tree the lines marked DEFECT print a digest / an accepted PSBT; on the repaired tree they print
`refused`."""
import hashlib
import io

from embit.psbt import PSBT
from embit.psbtview import PSBTView
from embit.script import Script
from embit.transaction import Transaction, TransactionInput, TransactionOutput


def call(f):
    try:
        r = f()
        return r.hex() if isinstance(r, bytes) else "accepted"
    except Exception as e:
        return "refused (%s: %s)" % (type(e).__name__, e)


tx = Transaction(2, [TransactionInput(bytes([7] * 32), 1, sequence=0xfffffffe)],
                 [TransactionOutput(5000, Script(b"\x6a"))], 0)
spk = Script(b"\x51\x20" + bytes([1] * 32))
print("A4  Transaction.sighash_taproot, hash type 0x80              :", call(lambda: tx.sighash_taproot(0, [spk], [6000], 0x80)))
print("A4  Transaction.sighash_taproot, 0 scripts for 1 input (ALL)  :", call(lambda: tx.sighash_taproot(0, [], [6000], 0x01)))
print("A4  Transaction.sighash_taproot, 2 scripts for 1 input (ALL)  :", call(lambda: tx.sighash_taproot(0, [spk, spk], [6000], 0x01)))
pb = PSBT(tx).serialize()
print("A4  PSBTView.sighash_taproot,    hash type 0x80              :",
      call(lambda: PSBTView.view(io.BytesIO(pb)).sighash_taproot(0, [spk], [6000], 0x80)))
print("A4  PSBTView.sighash_taproot,    0 scripts for 1 input (ALL)  :",
      call(lambda: PSBTView.view(io.BytesIO(pb)).sighash_taproot(0, [], [6000], 0x01)))
print("    control: hash type 0x81, one script                      :", call(lambda: tx.sighash_taproot(0, [spk], [6000], 0x81)))


def ss(x):
    return bytes([len(x)]) + x


def frame(scopes):
    return b"psbt\xff" + b"".join(b"".join(ss(k) + ss(v) for k, v in m) + b"\x00" for m in scopes)


prev1 = Transaction(2, [TransactionInput(bytes([9] * 32), 0, Script(b"\x51"), 0xfffffffe)],
                    [TransactionOutput(1, Script(b"\x51")), TransactionOutput(5000, Script(b"\x6a"))], 0).serialize()
prev2 = Transaction(2, [TransactionInput(bytes([9] * 32), 0, Script(b"\x51"), 0xfffffffe)],
                    [TransactionOutput(1, Script(b"\x51")), TransactionOutput(777, Script(b"\x6a"))], 0).serialize()
G0 = [(b"\x00", Transaction(2, [TransactionInput(bytes([7] * 32), 1)], [TransactionOutput(5000, Script(b"\x51"))], 0).serialize())]
dup = frame([G0, [(b"\x00", prev1), (b"\x00", prev2)], []])
for mode in (0, 1, 2):
    def f():
        p = PSBT.parse(dup, compress=mode)
        return ("accepted, utxo value %d (the LAST of the two previous transactions)" % p.inputs[0].utxo.value).encode()
    r = call(f)
    print("B3  PSBT.parse(compress=%d), key 00 twice in the input scope   :" % mode,
          bytes.fromhex(r).decode() if not r.startswith("refused") else r)
print("    bytes:", dup.hex())

ws = bytes([0, 0x14]) + b"\xaa" * 20
p = PSBT(tx)
p.inputs[0].witness_utxo = TransactionOutput(6000, Script(bytes([0, 0x20]) + hashlib.sha256(ws).digest()))
p.inputs[0].witness_script = Script(ws)
print("A13 P2WSH with witness script 0014||aa*20: PSBT.sighash       :", p.sighash(0).hex())
print("    BIP143 with the witness script as script code             :", tx.sighash_segwit(0, Script(ws), 6000).hex())
print("    BIP143 with 76a914||aa*20||88ac (what embit hashes)       :",
      tx.sighash_segwit(0, Script(b"\x76\xa9\x14" + b"\xaa" * 20 + b"\x88\xac"), 6000).hex())
