"""Concrete witnesses for the three C02X findings. Run with EMBIT_REPO=<repo> /venv/bin/python handoff/c02x-witnesses.py
(imports embit from EMBIT_REPO/src through harness/core.py). Before c02x-01 (commit 0b9895a) / fixes/c02x-02 / fixes/c02x-03
it prints the defective behaviour, after them the repaired one. "signs again: 1" is NOT a defect: the counter counts the
signatures a call files, also when the identical signature was there (pinned by tests/tests/test_psbtview.py::test_sign)."""
import io
import os
import random
import sys

sys.path.insert(0, os.path.join(os.path.dirname(os.path.abspath(__file__)), "..", "harness"))
import core  # noqa: F401  (puts EMBIT_REPO/src on sys.path)
import gen_wallet as gw
import gen_psbt
from embit import ec
from embit.descriptor import Descriptor
from embit.psbt import PSBT
from embit.psbtview import PSBTView

H = gw.H
w = gw.wallet("A")


def find(kind, seed, pred=lambda d: True):
    rng = random.Random(seed)
    while True:
        g = gw.gen_signable(rng, max_in=1)
        d = g["ins"][0]
        if d["kind"] == kind and d["sighash_type"] is None and d["keys"][0][1] and pred(d):
            return g


def account_descriptor(d):
    r = [r for r in d["keys"] if r[0] == "A"][0]
    acct = r[1][:3]
    origin = "[%s/%s]" % (w.fp.hex(), "/".join("%dh" % (x - H) for x in acct))
    k = origin + w.key(acct).to_base58()
    return Descriptor.from_string("wsh(or_d(pk(%s/<0;1>/*),and_v(v:pk(%s/<2;3>/*),older(10))))" % (k, k))


print("== c02x-01: derivation entry naming the key with the other Y parity (p2wpkh input, signer = HD root)")
g = find("p2wpkh", 5)
d = g["ins"][0]
d["pairs"] = [((b"\x06" + bytes([k[1] ^ 1]) + k[2:]) if k[:1] == b"\x06" else k, v) for k, v in d["pairs"]]
b = gw.psbt_bytes(g)
print("psbt:", b.hex())
p = PSBT.parse(b)
try:
    n = p.sign_with(w.root)
    for pub, sig in p.inputs[0].partial_sigs.items():
        ok = pub.verify(ec.Signature.parse(sig[:-1]), p.sighash(0, sighash=1))
        print("count", n, "signature filed under", pub.sec().hex(), "verifies under that key:", ok)
except Exception as e:
    print("sign_with raises:", type(e).__name__, e)

print("== c02x-02: counter (p2wpkh input)")
g = find("p2wpkh", 5)
b = gw.psbt_bytes(g)
p = PSBT.parse(b)
print("HD root signs:", p.sign_with(w.root), "- signs again:", p.sign_with(w.root), "- signatures in the PSBT:",
      len(p.inputs[0].partial_sigs))
desc = account_descriptor(g["ins"][0])
p = PSBT.parse(b)
print("descriptor holding the account key under two branches signs:", p.sign_with(desc), "- signatures in the PSBT:",
      len(p.inputs[0].partial_sigs))

print("== c02x-03: PSBTView.sign_with with that descriptor on a 2-of-n input the cosigner signed already")
g = find("p2wsh-multi", 7, lambda d: len(d["keys"]) >= 2)
b = gw.psbt_bytes(g)
p = PSBT.parse(b)
p.sign_with(gw.wallet("B").root)
b2 = p.serialize()
print("psbt:", b2.hex())
desc = account_descriptor(g["ins"][0])
v = PSBTView.view(io.BytesIO(b2))
sigs = io.BytesIO()
print("view count:", v.sign_with(desc, sigs))
sc = gen_psbt.split_scopes(b"psbt\xff\x00" + sigs.getvalue())[1:]
print("keys written for input 0:", [k[:4].hex() for k, _ in sc[0]])
out = io.BytesIO()
sigs.seek(0)
try:
    v.write_to(out, extra_input_streams=[sigs])
    print("write_to with the signature stream: ok")
except Exception as e:
    print("write_to with the signature stream raises:", type(e).__name__, e)
p2 = PSBT.parse(b2)
print("in-memory count on the same PSBT:", p2.sign_with(desc))
