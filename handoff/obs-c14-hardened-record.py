from embit import bip32, ec
from embit.descriptor import Descriptor
from embit.psbt import PSBT, DerivationPath
from embit.transaction import Transaction, TransactionInput, TransactionOutput
import embit
print("embit from", embit.__file__)
root = bip32.HDKey.from_seed(b"\x01" * 32)
acc = root.derive("m/84h/1h/0h")
fp = root.my_fingerprint
desc = Descriptor.from_string("wpkh([%s/84h/1h/0h]%s/<0;1>/*)" % (fp.hex(), acc.to_public().to_base58()))
i, b = 5, 1
own = desc.derive(i, branch_index=b)
spk = own.script_pubkey()
honest = DerivationPath(fp, bip32.parse_path("m/84h/1h/0h") + [b, i])
hostile = DerivationPath(fp, bip32.parse_path("m/84h/1h/0h") + [b, i | 0x80000000])
tx = Transaction(vin=[TransactionInput(b"\x11" * 32, 0)], vout=[TransactionOutput(50000, spk)])
def scope(recs):
    out = PSBT(tx).outputs[0]
    for n, r in enumerate(recs):
        out.bip32_derivations[ec.PrivateKey((n + 1).to_bytes(32, "big")).get_public_key()] = r
    return out
for name, recs in (("honest only", [honest]), ("honest, then hardened", [honest, hostile]),
                   ("hardened, then honest", [hostile, honest]), ("hardened only", [hostile])):
    try:
        print("%-24s owns ->" % name, desc.owns(scope(recs)))
    except Exception as e:
        print("%-24s owns RAISES %s: %s" % (name, type(e).__name__, e))
