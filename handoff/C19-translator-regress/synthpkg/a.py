_EMPTY = []
_EMPTY2 = []
TABLE = {"main": {"x": b"1"}, "test": {"x": b"2"}}

class T1:
    def __init__(self, vin=None):
        if vin is None:
            vin = _EMPTY
        self.vin = vin

class T2:
    def __init__(self, vin=None):
        self.vin = vin or _EMPTY2

class T3:
    def __init__(self, vin=_EMPTY):
        self.vin = vin

class K:
    def __init__(self, net=TABLE["main"]):
        self.net = net

class TC:
    """copies: fine"""
    def __init__(self, vin=None):
        self.vin = list(vin or _EMPTY)
