import ctypes, ctypes.util
_secp = ctypes.CDLL(ctypes.util.find_library("c"))
lib2 = _secp

def f1(buf):
    lib = _secp
    out = b"\x00" * 8
    lib.memcpy(out, buf, 8)
    return out

def f2(buf, name):
    fn = getattr(_secp, name)
    out = bytes(8)
    fn(out, buf, 8)
    return out

def f3(buf):
    cp = _secp.memcpy
    out = bytes(8)
    cp(out, buf, 8)
    return out
