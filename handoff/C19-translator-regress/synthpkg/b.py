class U:
    shared = []
    def __init__(self):
        self.items = self.shared

class W:
    items = []
    def __init__(self, items=None):
        if items:
            self.items = items[:]
    def add(self, x):
        self.items.append(x)

class C:
    cache = {}
    def get(self, k):
        if k not in self.cache:
            self.cache[k] = [k]
        return self.cache[k]
    @classmethod
    def put(cls, k, v):
        cls.cache[k] = v

class G:
    exp = bytearray(4)
    @classmethod
    def _load(cls):
        for i in range(4):
            cls.exp[i] = i + 1
G._load()
