class M4:
    def __init__(self):
        self._g = None
        self.x = 1
    def clear_cache(self):
        self._g = None
    def g(self, amounts):
        v = sum(amounts)
        if self._g is None:
            self._g = v
        return self._g
