_LAST = None
_COUNT = 0
TABLE = [1, 2, 3]
NETS = {"main": 1}

def remember(x):
    global _LAST
    _LAST = x
    return x

def count():
    global _COUNT
    _COUNT += 1
    return _COUNT

def grow(x=1):
    TABLE.append(x)

def register(name="x"):
    NETS[name] = 2

def via_alias():
    t = TABLE
    t.append(9)

def reader():
    return len(TABLE) + NETS["main"]
