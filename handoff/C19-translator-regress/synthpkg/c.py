import functools
from functools import lru_cache

class S:
    def __init__(self, data=b""):
        self.data = data

@functools.lru_cache(maxsize=None)
def make(x):
    return S(bytes([x % 256]))

@lru_cache()
def num(x):
    return x + 1

_CACHE = {}
def memo(x):
    if x in _CACHE:
        return _CACHE[x]
    v = S(b"%d" % x)
    _CACHE[x] = v
    return v

_ICACHE = {}
def imemo(x):
    if x not in _ICACHE:
        _ICACHE[x] = x * 2
    return _ICACHE[x]

class M:
    def __init__(self):
        self._h = None
        self._g = None
    def h(self, amounts):
        if self._h is not None:
            return self._h
        self._h = sum(amounts)
        return self._h
    def t(self, amounts):
        try:
            return self._t
        except AttributeError:
            self._t = sum(amounts)
            return self._t
    def r(self):
        if hasattr(self, "_r"):
            return self._r
        self._r = 5
        return self._r
    def g(self, amounts):
        v = sum(amounts)
        if self._g is not None:
            return self._g
        self._g = v
        return self._g
