#!/bin/bash
# usage: sites.sh <name>: the unsafe sites the translator reports with the patch applied
name=$1
export EMBIT_REPO=/tmp/w-dL/repo
cd /tmp/w-dL/repo && git checkout -q . && git apply /tmp/w-dL/regress/$name.diff || exit 9
cd /tmp/w-dL/verif/harness && PYTHONPATH=/tmp/w-dL/repo/src /venv/bin/python -W ignore aliasfacts.py 2>&1 | grep -i "unsafe\|notProbed.*\(shared\|global\|cache\|memo\|native\|flow\|write\)\|unclassified\|sharedConstant " | grep -v "^util.*tweak\|D31\|Descriptor(key\|TapTree\|contractM" | cut -c1-330
cd /tmp/w-dL/repo && git checkout -q .
