#!/bin/bash
# usage: run.sh <name> [seed]   applies /tmp/w-dL/regress/<name>.diff to the worktree, runs the repo suite and ./check C19, reverts
name=$1; seed=${2:-0}
export EMBIT_REPO=/tmp/w-dL/repo
cd /tmp/w-dL/repo && git checkout -q . && git apply /tmp/w-dL/regress/$name.diff || exit 9
echo "== $name: repo suite"
(cd /tmp/w-dL/repo && PYTHONPATH=/tmp/w-dL/repo/src /venv/bin/python -m pytest -q -p no:cacheprovider 2>&1 | tail -2)
echo "== $name: ./check C19 --seed $seed"
cd /tmp/w-dL/verif && /usr/bin/time -f "%es" ./check C19 --seed $seed 2>&1 | grep -v KNOWN-FINDING | tail -4
for f in replays/C19-quick-$seed.json replays/C19-quick-$seed-broken.json; do
  if [ -f $f ] && [ $f -nt /tmp/w-dL/regress/$name.diff.stamp ]; then cp $f /tmp/w-dL/regress/$name-replay.json; echo "replay: $f"; fi
done
cd /tmp/w-dL/repo && git checkout -q .
