import subprocess, sys, os, json, shutil, time, functools
print = functools.partial(print, flush=True)
REPO="/tmp/w-c20/repo"; F=REPO+"/src/embit/util/ctypes_secp256k1.py"; VERIF="/tmp/w-c20/verif"
orig=open(F).read()
def rep(a,b,count=1):
    def f(s):
        assert a in s, a
        return s.replace(a,b,count)
    return f
MUTS={
 "M1-unlock-ec_pubkey_create": rep("@locked\ndef ec_pubkey_create(","def ec_pubkey_create("),
 "M2-unlock-schnorrsig_sign-body": rep("    with _lock:\n        assert len(keypair) == 96","    if True:\n        assert len(keypair) == 96"),
 "M3-const-buffer-pedersen_commit": rep("    commit = bytes(64)\n    r = _secp.secp256k1_pedersen_commit(","    commit = b\"\\x00\" * 64\n    r = _secp.secp256k1_pedersen_commit("),
 "M4-D32-original": rep("    vbf_out = bytes(32)","    vbf_out = b\"\\x00\" * 32"),
 "M5-const-buffer-copied-under-lock": lambda s: rep("        vbf_out,\n        msg[: msglen.contents.value],","        _copy(vbf_out),\n        msg[: msglen.contents.value],")(rep("    vbf_out = bytes(32)","    vbf_out = b\"\\x00\" * 32")(s)),
 "M5b-const-buffer-copy-after-release": lambda s: rep("        vbf_out,\n        msg[: msglen.contents.value],","        vbf_out,\n        msg[: msglen.contents.value],")(rep("    vbf_out = bytes(32)","    vbf_out = b\"\\x00\" * 32")(s)).replace("@locked\ndef rangeproof_rewind(","def rangeproof_rewind(").replace("    res = _secp.secp256k1_rangeproof_rewind(","    _lock.acquire()\n    res = _secp.secp256k1_rangeproof_rewind(").replace("""    if res != 1:
        raise RuntimeError("Failed to rewind the proof")
    return (
        value_out.contents.value,
        vbf_out,""","""    _lock.release()
    if res != 1:
        raise RuntimeError("Failed to rewind the proof")
    return (
        value_out.contents.value,
        _copy(vbf_out),"""),
 "M6-new-wrapper-no-lock": lambda s: s + '''

def ec_pubkey_create2(secret, context=_secp.ctx):
    pub = bytes(64)
    if _secp.secp256k1_ec_pubkey_create(context, pub, secret) == 0:
        raise ValueError("Invalid private key")
    return pub
''',
 "M7-new-wrapper-unguessable-args": lambda s: s + '''

def frobnicate(thing, context=_secp.ctx):
    out = bytes(64)
    _secp.secp256k1_ec_pubkey_create(context, out, thing.blob)
    return out
''',
 "M8-module-global-buffer": lambda s: rep("    gen = bytes(64)\n    r = _secp.secp256k1_generator_generate(context, gen, asset)","    gen = _GEN\n    r = _secp.secp256k1_generator_generate(context, gen, asset)")(s.replace("# generator\n@locked\ndef generator_parse","_GEN = bytes(64)\n\n\n# generator\n@locked\ndef generator_parse")),
 "M9-locked-on-schnorrsig_sign": rep("# not @locked because it uses keypair_create inside\ndef schnorrsig_sign(","@locked\ndef schnorrsig_sign("),
 "M10-module-level-native": lambda s: s + "\n_secp.secp256k1_context_randomize(_secp.ctx, os.urandom(32))\n",
 "M15-harmless-fresh-copy-after-release": rep('''@locked
def ecdsa_signature_serialize_der(sig, context=_secp.ctx):
    if len(sig) != 64:
        raise ValueError("Signature should be 64 bytes long")
    der = bytes(78)  # max
    sz = c_size_t(len(der))
    r = _secp.secp256k1_ecdsa_signature_serialize_der(context, der, byref(sz), sig)
    if r == 0:
        raise ValueError("Failed serializing der signature")
    return der[: sz.value]''','''def ecdsa_signature_serialize_der(sig, context=_secp.ctx):
    if len(sig) != 64:
        raise ValueError("Signature should be 64 bytes long")
    der = bytes(78)  # max
    sz = c_size_t(len(der))
    with _lock:
        r = _secp.secp256k1_ecdsa_signature_serialize_der(context, der, byref(sz), sig)
    if r == 0:
        raise ValueError("Failed serializing der signature")
    return der[: sz.value]'''),
 "M14-unlock-_init": rep("@locked\ndef _init(","def _init("),
 "M11-harmless-with-lock-instead-of-decorator": lambda s: rep('''@locked
def ec_pubkey_create(secret, context=_secp.ctx):
    if len(secret) != 32:
        raise ValueError("Private key should be 32 bytes long")
    pub = bytes(64)
    r = _secp.secp256k1_ec_pubkey_create(context, pub, secret)
    if r == 0:
        raise ValueError("Invalid private key")
    return pub''','''def ec_pubkey_create(secret, context=_secp.ctx):
    if len(secret) != 32:
        raise ValueError("Private key should be 32 bytes long")
    result = bytearray(64)
    with _lock:
        r = _secp.secp256k1_ec_pubkey_create(
            context, (ctypes.c_char * 64).from_buffer(result), secret
        )
    if r == 0:
        raise ValueError("Invalid private key")
    return bytes(result)''')(s),
 "M12-default-arg-buffer": rep("def keypair_create(secret, context=_secp.ctx):\n    assert len(secret) == 32\n    keypair = bytes(96)","def keypair_create(secret, context=_secp.ctx, keypair=bytes(96)):\n    assert len(secret) == 32"),
 "M13-unlock-ecdh-hashfn-branch-only": rep('''        HASHFN = CFUNCTYPE(c_int, c_void_p, c_void_p, c_void_p)
        res = _secp.secp256k1_ecdh(''','''        HASHFN = CFUNCTYPE(c_int, c_void_p, c_void_p, c_void_p)
        _lock.release()
        try:
            res = _secp.secp256k1_ecdh(
                context, secret, pubkey, scalar, HASHFN(_hashfn), data
            )
        finally:
            _lock.acquire()
        res2 = (lambda *a: res)('''),
}
which = sys.argv[1:] or list(MUTS)
env=dict(os.environ, EMBIT_REPO=REPO, PYTHONPATH=REPO+"/src")
for m in which:
    try:
        open(F,"w").write(MUTS[m](orig))
        t=time.time()
        p=subprocess.run(["./check","C20"],cwd=VERIF,env=env,capture_output=True,text=True,timeout=600)
        out=[l for l in (p.stdout+p.stderr).split("\n") if l.strip() and "conda" not in l]
        print("=== %s: exit %d, %.0fs" % (m,p.returncode,time.time()-t))
        for l in out[-3:]: print("   ",l[:300])
        for l in out:
            if l.startswith("VIOLATION"):
                rp=l.split("replay=")[1].split()[0]
                r=json.load(open(os.path.join(VERIF,rp)))
                print("    what:", r.get("what", r.get("note",""))[:300])
                print("    op:", r.get("op"), "programs:", r.get("programs"), "preempts:", r.get("preempts"), "entry:", r.get("entry"), r.get("native"))
                if "broken" in r: print("    broken:", [b for b in r["broken"] if b[0] in ("facts",)][:4])
                shutil.copy(os.path.join(VERIF,rp), "/tmp/w-c20/mut/%s.json" % m)
    finally:
        open(F,"w").write(orig)
p=subprocess.run(["./check","C20"],cwd=VERIF,env=env,capture_output=True,text=True)
print("=== restored tree: exit", p.returncode, [l for l in p.stdout.split("\n") if l.startswith("C20")])
