"""Reproductions (on the pinned embit tree) of deviations that the C01-C06 theorems exclude by hypothesis / statement
choice and that neither known_findings.json nor the check output mentions.
Run:  cd /tmp/w-dR/repo && PYTHONPATH=src /venv/bin/python /tmp/w-dR/verif/audit/repro_c01_c06.py"""
import io
from embit import compact
from embit.psbt import PSBT
from embit.psbtview import PSBTView
from embit.script import Script
from embit.transaction import Transaction, TransactionInput, TransactionOutput


def ss(x):
    return compact.to_bytes(len(x)) + x


def frame(scopes):
    return b"psbt\xff" + b"".join(b"".join(ss(k) + ss(v) for k, v in m) + b"\x00" for m in scopes)


# R1 (C01): taproot hash type 0x80 (DEFAULT|ANYONECANPAY) is invalid under BIP341; embit returns a digest
t = Transaction(2, [TransactionInput(b"\x01" * 32, 0)], [TransactionOutput(1, Script(b"\x51"))])
print("R1 taproot 0x80 digest:", t.sighash_taproot(0, [Script(b"\x51\x20" + b"\x02" * 32)], [5], 0x80).hex())
# R2 (C01): script_pubkeys list of the wrong length is not refused (BIP341 needs all spent scripts)
print("R2 taproot, spks=[]   :", t.sighash_taproot(0, [], [5], 0x01).hex())

# R3 (C05/C01): PSBTv2 without PSBT_GLOBAL_TX_VERSION: both parsers accept, view uses tx version 0, PSBT uses 2
G = [(b"\xfb", bytes([2, 0, 0, 0])), (b"\x03", bytes([7, 0, 0, 0])), (b"\x04", b"\x01"), (b"\x05", b"\x01")]
spk = b"\x00\x14" + b"\x11" * 20
I = [(b"\x0e", bytes([7] * 32)), (b"\x0f", bytes([1, 0, 0, 0])), (b"\x01", (5000).to_bytes(8, "little") + ss(spk))]
O = [(b"\x03", (4000).to_bytes(8, "little")), (b"\x04", b"\x51")]
b = frame([G, I, O])
p = PSBT.parse(b)
v = PSBTView.view(io.BytesIO(b))
print("R3 tx version psbt/view:", p.tx.version, v.tx_version)
print("R3 sighash psbt:", p.sighash(0, 1).hex())
print("R3 sighash view:", v.sighash(0, 1).hex())

# R4 (C04): duplicated PSBT_IN_NON_WITNESS_UTXO key is refused in KEEP_ALL but accepted (last wins) in modes 1/2
prev = Transaction(2, [TransactionInput(b"\x01" * 32, 0)], [TransactionOutput(1000, Script(b"\x51"))])
prev2 = Transaction(2, [TransactionInput(b"\x02" * 32, 0)], [TransactionOutput(999999, Script(b"\x52"))])
tx = Transaction(2, [TransactionInput(prev.txid(), 0)], [TransactionOutput(1, Script(b"\x51"))])
b = frame([[(b"\x00", tx.serialize())], [(b"\x00", prev2.serialize()), (b"\x00", prev.serialize())], []])
for c in (0, 1, 2):
    try:
        q = PSBT.parse(b, compress=c)
        print("R4 mode", c, "accepted; utxo value", q.inputs[0].utxo.value)
    except Exception as e:
        print("R4 mode", c, "rejected:", e)

# R5 (C02): P2WSH whose witness script has the 22-byte p2wpkh shape: PSBT.sighash signs the P2PKH conversion,
# BIP143 prescribes the witness script itself as script code
ws = b"\x00\x14" + b"\x22" * 20
import hashlib
spk = b"\x00\x20" + hashlib.sha256(ws).digest()
b = frame([[(b"\x00", tx.serialize())],
           [(b"\x01", (5000).to_bytes(8, "little") + ss(spk)), (b"\x05", ws)], []])
q = PSBT.parse(b)
print("R5 embit digest      :", q.sighash(0, 1).hex())
print("R5 BIP143 (sc = ws)  :", q.sighash_segwit(0, Script(ws), 5000, 1).hex())
