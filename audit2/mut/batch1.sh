#!/bin/bash
cd /tmp/w-dR2/verif/audit2/mut
# ---- C01 harmless
./mut.py C01-harmless C01 psbt.py '        # convert to p2pkh according to bip143
        if sc.script_type() == "p2wpkh":
            sc = script.p2pkh_from_p2wpkh(sc)

        if is_segwit:
            h = self.sighash_segwit(i, sc, value, sighash=sighash)
        else:
            h = self.sighash_legacy(i, sc, sighash=sighash)
        return h

    def sign_input_with_tapkey(' '        if is_segwit:
            # convert to p2pkh according to bip143
            if sc.script_type() == "p2wpkh":
                sc = script.p2pkh_from_p2wpkh(sc)
            return self.sighash_segwit(i, sc, value, sighash=sighash)
        return self.sighash_legacy(i, sc, sighash=sighash)

    def sign_input_with_tapkey(' transaction.py '            h = hashlib.sha256()
            for inp in self.vin:
                h.update(inp.sequence.to_bytes(4, "little"))
            self._hash_sequence = h.digest()' '            data = b"".join(inp.sequence.to_bytes(4, "little") for inp in self.vin)
            self._hash_sequence = hashlib.sha256(data).digest()' > C01-harmless.log 2>&1
# ---- C02 regression: key-path tweak ignores the merkle root
./mut.py C02-reg-merkle C02 psbt.py '        pk = key.taproot_tweak(inp.taproot_merkle_root or b"")
        if pk.xonly() in inp.utxo.script_pubkey.data:
            h = self.sighash(
                input_index,
                sighash=sighash,
            )' '        pk = key.taproot_tweak(b"")
        if pk.xonly() in inp.utxo.script_pubkey.data:
            h = self.sighash(
                input_index,
                sighash=sighash,
            )' > C02-reg-merkle.log 2>&1
# ---- C02 harmless
./mut.py C02-harmless C02 psbt.py '                for pub in inp.bip32_derivations:
                    derivation = inp.bip32_derivations[pub]
                    if derivation.fingerprint == fingerprint:
                        bip32_derivations.add((pub, derivation))

            # get derived keys for signing
            derived_keypairs = set()  # (prv, pub)
            for pub, derivation in bip32_derivations:
                der = derivation.derivation
                # descriptor key has origin derivation that we take into account
                if hasattr(root, "origin"):
                    if root.origin:
                        if root.origin.derivation != der[: len(root.origin.derivation)]:
                            # derivation doesn'"'"'t match - go to next input
                            continue
                        der = der[len(root.origin.derivation) :]
                    hdkey = root.key.derive(der)
                else:
                    hdkey = root.derive(der)

                if inp.is_taproot:
                    matches = hdkey.xonly() == pub.xonly()' '                bip32_derivations.update(
                    (pub, d) for pub, d in inp.bip32_derivations.items() if d.fingerprint == fingerprint
                )

            # get derived keys for signing
            derived_keypairs = set()  # (prv, pub)
            for pub, derivation in bip32_derivations:
                der = derivation.derivation
                # descriptor key has origin derivation that we take into account
                if hasattr(root, "origin"):
                    if root.origin:
                        prefix = root.origin.derivation
                        if prefix != der[: len(prefix)]:
                            # derivation doesn'"'"'t match - go to next input
                            continue
                        der = der[len(prefix) :]
                    hdkey = root.key.derive(der)
                else:
                    hdkey = root.derive(der)

                if inp.is_taproot:
                    matches = hdkey.xonly() == pub.xonly()' > C02-harmless.log 2>&1
# ---- C03 regression
./mut.py C03-reg-allsegwit C03 transaction.py '        for inp in self.vin:
            if inp.is_segwit:
                return True
        return False' '        return all(inp.is_segwit for inp in self.vin)' > C03-reg-allsegwit.log 2>&1
# ---- C03 harmless
./mut.py C03-harmless C03 transaction.py '        for inp in self.vin:
            if inp.is_segwit:
                return True
        return False' '        return any(inp.is_segwit for inp in self.vin)' transaction.py '        vin = []
        for i in range(num_vin):
            vin.append(TransactionInput.read_from(stream))
        num_vout = compact.read_from(stream)
        vout = []
        for i in range(num_vout):
            vout.append(TransactionOutput.read_from(stream))
        if is_segwit:
            for inp in vin:' '        vin = [TransactionInput.read_from(stream) for _ in range(num_vin)]
        num_vout = compact.read_from(stream)
        vout = [TransactionOutput.read_from(stream) for _ in range(num_vout)]
        if is_segwit:
            for inp in vin:' > C03-harmless.log 2>&1
# ---- C04 regression
./mut.py C04-reg-version0 C04 psbt.py '        if self.version is not None:
            r += ser_string(stream, b"\xfb")' '        if self.version:
            r += ser_string(stream, b"\xfb")' > C04-reg-version0.log 2>&1
# ---- C04 harmless (strict)
./mut.py C04-harmless C04 psbt.py '        # unknown
        for key in self.unknown:
            r += ser_string(stream, key)
            r += ser_string(stream, self.unknown[key])
        # separator
        r += stream.write(b"\x00")
        # inputs' '        # unknown
        for key, value in self.unknown.items():
            r += ser_string(stream, key) + ser_string(stream, value)
        # separator
        r += stream.write(b"\x00")
        # inputs' > C04-harmless.log 2>&1
# ---- C04 property-conformant reorder of two independent fields
./mut.py C04-reorder C04 psbt.py '        if self.redeem_script is not None:
            r += stream.write(b"\x01\x00")
            r += self.redeem_script.write_to(stream)  # script serialization has length
        if self.witness_script is not None:
            r += stream.write(b"\x01\x01")
            r += self.witness_script.write_to(stream)  # script serialization has length
        for pub in self.bip32_derivations:
            r += ser_string(stream, b"\x02" + pub.serialize())' '        if self.witness_script is not None:
            r += stream.write(b"\x01\x01")
            r += self.witness_script.write_to(stream)  # script serialization has length
        if self.redeem_script is not None:
            r += stream.write(b"\x01\x00")
            r += self.redeem_script.write_to(stream)  # script serialization has length
        for pub in self.bip32_derivations:
            r += ser_string(stream, b"\x02" + pub.serialize())' > C04-reorder.log 2>&1
# ---- C05 regressions
./mut.py C05-reg-vout0 C05 psbtview.py '                + len(compact.to_bytes(self.num_vout))' '                + 1' > C05-reg-vout0.log 2>&1
./mut.py C05-reg-outmeta C05 psbtview.py '            if compress:
                out.clear_metadata(compress=compress)
            res += out.write_to' '            res += out.write_to' > C05-reg-outmeta.log 2>&1
# ---- C05 harmless
./mut.py C05-harmless C05 psbtview.py '        off = self.first_scope
        while n:
            off += self._skip_scope()
            n -= 1
        return off' '        off = self.first_scope
        for _ in range(n):
            off += self._skip_scope()
        return off' psbtview.py '        self.stream.seek(self.vout0_offset)
        n = i
        while n:
            self._skip_output()
            n -= 1
        return TransactionOutput.read_from(self.stream)' '        self.stream.seek(self.vout0_offset)
        for _ in range(i):
            self._skip_output()
        return TransactionOutput.read_from(self.stream)' > C05-harmless.log 2>&1
# ---- C01 view memo vs C19
./mut.py C01-reg-viewmemo-c19 C19 psbtview.py '        if self._hash_amounts is None or self._hash_amounts[0] != key:' '        if self._hash_amounts is None:' > C01-reg-viewmemo-c19.log 2>&1
echo done
