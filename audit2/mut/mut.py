#!/venv/bin/python
"""usage: mut.py NAME PROP[,PROP] FILE 'old' 'new' [FILE 'old' 'new' ...]
applies exact single-occurrence replacements to /tmp/w-dR2/repo/src/embit/FILE, saves the diff, runs ./check PROP, reverts."""
import subprocess, sys, os
REPO="/tmp/w-dR2/repo"; VERIF="/tmp/w-dR2/verif"; OUT=VERIF+"/audit2/mut"
name, props = sys.argv[1], sys.argv[2].split(",")
trip = sys.argv[3:]
assert subprocess.run(["git","-C",REPO,"status","--porcelain"],capture_output=True,text=True).stdout.strip()=="" , "repo dirty"
try:
    for k in range(0,len(trip),3):
        f, old, new = trip[k:k+3]
        p=os.path.join(REPO,"src/embit",f); s=open(p).read()
        assert s.count(old)==1, "occurrences of %r in %s: %d"%(old,f,s.count(old))
        open(p,"w").write(s.replace(old,new))
    d=subprocess.run(["git","-C",REPO,"diff"],capture_output=True,text=True).stdout
    open(OUT+"/%s.diff"%name,"w").write(d)
    t=subprocess.run(["/venv/bin/python","-m","pytest","-x","-q",REPO+"/tests"],capture_output=True,text=True,cwd=REPO,env=dict(os.environ,PYTHONPATH=REPO+"/src")) if os.environ.get("SUITE") else None
    res=[]
    if t is not None: res.append("suite: "+t.stdout.strip().split("\n")[-1])
    for prop in props:
        r=subprocess.run(["./check",prop]+os.environ.get("CHECK_ARGS","").split(),capture_output=True,text=True,cwd=VERIF,env=dict(os.environ,EMBIT_REPO=REPO))
        tail=[l for l in (r.stdout+r.stderr).split("\n") if l.strip()][-4:]
        res.append("%s rc=%d\n  "%(prop,r.returncode)+"\n  ".join(tail))
        # keep replay
        for l in tail:
            if "replay=" in l:
                rp=l.split("replay=")[1].split()[0]
                try:
                    import shutil; shutil.copy(os.path.join(VERIF,rp), OUT+"/%s-%s-replay.json"%(name,prop))
                except Exception as e: res.append("  (replay copy failed %s)"%e)
    open(OUT+"/%s.result"%name,"w").write("\n".join(res)+"\n")
    print(d); print("\n".join(res))
finally:
    subprocess.run(["git","-C",REPO,"checkout","--","."])
