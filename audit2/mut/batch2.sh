#!/bin/bash
cd /tmp/w-dR2/verif/audit2/mut
sed -i 's|\["./check",prop\]|["./check",prop]+os.environ.get("CHECK_ARGS","").split()|' mut.py
CHECK_ARGS="--tier thorough" ./mut.py C05-reg-vout0-thorough C05 psbtview.py '                + len(compact.to_bytes(self.num_vout))' '                + 1' > C05-reg-vout0-thorough.log 2>&1
CHECK_ARGS="--tier thorough" ./mut.py C06-reg-any-thorough C06 psbt.py '        return all([inp.is_verified for inp in self.inputs])' '        return any([inp.is_verified for inp in self.inputs])' > C06-reg-any-thorough.log 2>&1
echo done
